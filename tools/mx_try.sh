#!/bin/bash
# tools/mx_try.sh <patch-dir> [ID ...]
# Development aid: runs quick checks of the CURRENT /verif working tree against one seeded
# change on a persistent mirror (MX_DIR, default /tmp/mx2: scratch worktree of /repo's HEAD +
# copy of /verif), so /repo stays untouched. Create the mirror first with
#   MX_DIR=/tmp/mx2 MX_KEEP=1 tools/matrix.sh <log> <some patch-dir>
# Env: MX_NOSYNC=1 keeps the mirror's copy of /verif as it is; TIER=thorough, TIER_ENV="VERIF_RUNS=..." are passed through to try_patch.sh.
set -u
V="$(cd "$(dirname "$0")/.." && pwd)"
MX="${MX_DIR:-/tmp/mx2}"
[ -d "$MX/repo" ] || { echo "no mirror at $MX"; exit 2; }
d="$(readlink -f "$1")"; shift
if [ -z "${MX_NOSYNC:-}" ]; then
rsync -a --exclude target --exclude .git --exclude replays --exclude evidence "$V/" "$MX/verif/"
sed -i "s#/repo#$MX/repo#g" "$MX/verif/check" "$MX/verif/tools/sensitivity.sh" "$MX/verif/tools/try_patch.sh" "$MX/verif/py/build_ext.sh" "$MX/verif/sim/Cargo.toml"
fi
git -C "$MX/repo" checkout -q -- . 2>/dev/null
cd "$MX/verif" && TRY_NO_REBUILD=1 tools/try_patch.sh "$d/patch.diff" "$@"
