#!/bin/bash
# soak: many seeds x all Rust checks, from a private copy of the binary; prints only problems
cp /verif/target/sim/release/oxsim ./oxsim.bin
export VERIF_DIR="$(pwd)"
for seed in "$@"; do
  for id in C01 C02 C03 C04 C05 C06 C07 C08 C15 C16 C17 C18; do
    VERIF_SEED=$seed ./oxsim.bin check $id ${TIER:-quick} > out.$id.$seed 2>&1
    rc=$?
    grep -E "VIOLATION|probes at zero|harness" out.$id.$seed | cut -c1-300
    echo "seed=$seed $id rc=$rc $(tail -1 out.$id.$seed | cut -c1-160)"
  done
done
