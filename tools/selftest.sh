#!/bin/bash
# Determinism proof for the machinery itself: the same VERIF_SEED must give the same executions
# (digest over every scenario's full event history) in separate processes, at 1 / 4 / 16 workers,
# for several seeds; pysim additionally under two PYTHONHASHSEED values.
cd "$(dirname "$0")/.."
export VERIF_DIR="$(pwd)"
BIN="$VERIF_DIR/target/sim/release/oxsim"
N=${1:-2000}
fail=0
tmp=$(mktemp -d)
for id in C01 C02 C03 C04 C05 C06 C07 C08 C15 C16 C17 C18; do
  for seed in 20261004 1 7; do
    ref=""
    for w in 1 4 16 16; do
      d=$(VERIF_DIR="$tmp" VERIF_SEED=$seed VERIF_WORKERS=$w VERIF_RUNS=$N "$BIN" check $id quick | grep -o 'digest=[0-9a-f]*')
      [ -z "$ref" ] && ref="$d"
      if [ "$d" != "$ref" ] || [ -z "$d" ]; then echo "NONDETERMINISTIC: $id seed=$seed workers=$w $d != $ref"; fail=1; fi
    done
    echo "$id seed=$seed $ref (1,4,16,16 workers agree)"
  done
done
if [ -f "$VERIF_DIR/target/py/site/oxmpl_py.so" ]; then
  for id in C19 C20; do
    ref=""
    for hs in 0 12345; do
      d=$(VERIF_OUT="$tmp" PYTHONHASHSEED=$hs VERIF_RUNS=200 python3 "$VERIF_DIR/py/pysim.py" check $id quick | grep -o 'digest=[0-9a-f]*')
      [ -z "$ref" ] && ref="$d"
      if [ "$d" != "$ref" ] || [ -z "$d" ]; then echo "NONDETERMINISTIC: $id PYTHONHASHSEED=$hs $d != $ref"; fail=1; fi
    done
    echo "$id $ref (PYTHONHASHSEED 0, 12345 agree)"
  done
fi
rm -rf "$tmp"
[ $fail = 0 ] && echo "selftest: deterministic" || { echo "selftest: FAILED"; exit 2; }
