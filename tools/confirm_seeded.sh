#!/bin/bash
# tools/confirm_seeded.sh <worktree> <deliver-name>
# Confirms an independently seeded change in its scratch worktree: with the patch the pinned
# test suite still passes and the demonstration fails; without the patch the demonstration passes.
wt="$1"; name="$2"; d="$wt/deliver/$name"
log="$d/confirm.log"; : > "$log"
cd "$wt" || exit 2
git checkout -q -- . ; rm -f oxmpl/tests/demo_*.rs
export CARGO_NET_OFFLINE=true
run_demo() { # prints PASS/FAIL
  local rc=0
  for f in "$d"/demo*.rs; do
    [ -e "$f" ] || continue
    case "$f" in *mirror*) continue;; esac
    cp "$f" oxmpl/tests/; stem=$(basename "$f" .rs)
    timeout 600 cargo test -p oxmpl --offline --features verif --test "$stem" >>"$log" 2>&1 || rc=1
    rm -f "oxmpl/tests/$(basename "$f")"
  done
  for f in "$d"/demo*.py; do
    [ -e "$f" ] || continue
    cargo build -p oxmpl-py --offline >>"$log" 2>&1 || { echo BUILD-FAIL; return; }
    mkdir -p "$wt/pysite"; cp -f target/debug/liboxmpl_py.so "$wt/pysite/oxmpl_py.so"
    timeout 600 python3 "$f" "$wt/pysite" >>"$log" 2>&1 || rc=1
  done
  [ $rc = 0 ] && echo PASS || echo FAIL
}
git apply "$d/patch.diff" || { echo "$name: APPLY-FAIL"; exit 1; }
suite=$(cargo nextest run --workspace --no-fail-fast --tool-config-file pb:/w/lib/nextest.toml --profile pb --test-threads 4 --offline 2>&1 | grep -E "Summary|FAIL " | tr '\n' ' ')
with=$(run_demo)
git checkout -q -- .
without=$(run_demo)
echo "$name: suite_with_patch=[$suite] demo_with_patch=$with demo_without_patch=$without"
