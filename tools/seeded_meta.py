#!/usr/bin/env python3
"""tools/seeded_meta.py update <matrix-log> ...   record 'caught by' results in seeded/*/meta.json
   tools/seeded_meta.py table                      print the DESIGN.md table (markdown)
Development aid; the logs come from tools/matrix.sh / tools/try_patch.sh."""
import glob, json, os, re, sys

V = os.path.dirname(os.path.dirname(os.path.abspath(__file__)))


def metas():
    for d in sorted(glob.glob(os.path.join(V, "seeded", "*", ""))):
        p = os.path.join(d, "meta.json")
        yield p, json.load(open(p))


if sys.argv[1] == "update":
    res = {}
    for log in sys.argv[2:]:
        for l in open(log):
            m = re.match(r"^(C\d\d-[\w-]+): caught by:(.*)$", l.strip())
            if m:
                res[m.group(1)] = [x for x in m.group(2).split() if x != "NONE"]
    n = 0
    for p, m in metas():
        if m["id"] in res:
            m["caught_by_quick_checks"] = res[m["id"]]
            m["caught_by_own_property_check"] = m["property"] in res[m["id"]]
            json.dump(m, open(p, "w"), indent=1)
            n += 1
    print(f"updated {n} of {len(res)} results")
elif sys.argv[1] == "table":
    print("| seeded change | round | caught by (quick tier) | own check |")
    print("|---|---|---|---|")
    for p, m in metas():
        c = m.get("caught_by_quick_checks", m.get("caught_by_at_first_try"))
        own = "yes" if c and m["property"] in c else "**no**"
        print(f"| {m['id']} | {m.get('round', 1)} | {', '.join(c) if c else 'none'} | {own} |")
