#!/usr/bin/env python3
"""tools/seeded_meta.py update <matrix-log> ...   record 'caught by' results in seeded/*/meta.json
   tools/seeded_meta.py table                      print the DESIGN.md table (markdown)
Development aid; the logs come from tools/matrix.sh / tools/try_patch.sh."""
import glob, json, os, re, sys

V = os.path.dirname(os.path.dirname(os.path.abspath(__file__)))


def metas():
    for d in sorted(glob.glob(os.path.join(V, "seeded", "*", ""))):
        p = os.path.join(d, "meta.json")
        yield p, json.load(open(p))


if sys.argv[1] == "update":
    res = {}
    for log in sys.argv[2:]:
        for l in open(log):
            m = re.match(r"^(C\d\d-[\w-]+): caught by:(.*)$", l.strip())
            if m:
                res[m.group(1)] = [x for x in m.group(2).split() if x != "NONE"]
    n = 0
    for p, m in metas():
        if m["id"] in res:
            m["caught_by_quick_checks"] = res[m["id"]]
            m["caught_by_own_property_check"] = m["property"] in res[m["id"]]
            json.dump(m, open(p, "w"), indent=1)
            n += 1
    print(f"updated {n} of {len(res)} results")
elif sys.argv[1] == "final":
    # tools/seeded_meta.py final <matrix-log> ... : records the own-property result of the final
    # matrix (checks as committed) in every meta.json
    res = {}
    for log in sys.argv[2:]:
        for l in open(log):
            m = re.match(r"^(C\d\d-[\w-]+): caught by:(.*)$", l.strip())
            if m:
                res[m.group(1)] = [x for x in m.group(2).split() if x != "NONE"]
    n = 0
    for p, m in metas():
        if m["id"] in res:
            m["final_matrix"] = {"caught_by": res[m["id"]], "own_check_caught": m["property"] in res[m["id"]]}
            json.dump(m, open(p, "w"), indent=1)
            n += 1
    print(f"updated {n} of {len(res)} results")
elif sys.argv[1] == "design":
    # the table of DESIGN 10.5
    rows = list(metas())
    print("| seeded change | round | own check, first run | own check, final | also caught by |")
    print("|---|---|---|---|---|")
    first_missed = final_missed = 0
    for p, m in rows:
        b = m.get("own_check_before_strengthening")
        if b is None:
            c = m.get("caught_by_at_first_try")
            first = "?" if c is None else ("caught" if m["property"] in c else "**missed**")
        else:
            first = "caught" if b["caught"] else "**missed**"
        f = m.get("final_matrix")
        final = "?" if f is None else ("caught" if f["own_check_caught"] else "**missed**")
        allc = set(f["caught_by"] if f else []) | set(m.get("caught_by_quick_checks") or []) | set(m.get("caught_by_at_first_try") or [])
        others = ", ".join(sorted(x for x in allc if x != m["property"]))
        first_missed += first == "**missed**"
        final_missed += final == "**missed**"
        print(f"| {m['id']} | {m.get('round', 1)} | {first} | {final} | {others} |")
    print(f"\n{len(rows)} changes; own check missed at first run: {first_missed}; at the final matrix: {final_missed}")
elif sys.argv[1] == "inject":
    # tools/seeded_meta.py inject : writes the `design` table between the markers in DESIGN.md
    import subprocess
    t = subprocess.run([sys.executable, os.path.abspath(__file__), "design"], capture_output=True, text=True).stdout
    dp = os.path.join(V, "DESIGN.md")
    d = open(dp).read()
    a, b = "<!-- seeded-table-begin -->", "<!-- seeded-table-end -->"
    i, j = d.index(a) + len(a), d.index(b)
    open(dp, "w").write(d[:i] + "\n" + t + d[j:])
    print("injected", t.count("\n"), "lines")
elif sys.argv[1] == "table":
    print("| seeded change | round | caught by (quick tier) | own check |")
    print("|---|---|---|---|")
    for p, m in metas():
        c = m.get("caught_by_quick_checks", m.get("caught_by_at_first_try"))
        own = "yes" if c and m["property"] in c else "**no**"
        print(f"| {m['id']} | {m.get('round', 1)} | {', '.join(c) if c else 'none'} | {own} |")
