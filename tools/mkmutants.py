#!/usr/bin/env python3
"""Regenerates /verif/mutants/*.patch from /repo's current sources: each mutant is a realistic,
compiling, test-passing change that breaks one property (DESIGN 8.2). `./check sensitivity`
applies them one at a time and expects the property's quick check to exit 1 with a replay that
reproduces."""
import difflib
import os
import sys

REPO = "/repo"
OUT = os.path.join(os.path.dirname(os.path.dirname(os.path.abspath(__file__))), "mutants")
P = "oxmpl/src/geometric/planners/"
PY = "oxmpl-py/src/"

# (name, properties expected to catch it (first = primary), file, old, new)
M = [
    ("c01_endpoint_unchecked", ["C01", "C15"], P + "rrt.rs", "            for i in 1..=num_steps {", "            for i in 1..num_steps {"),
    ("c02_connect_no_reverse", ["C02"], P + "rrt_connect.rs", "                        goal_path.reverse();\n", ""),
    ("c02_setup_keeps_tree", ["C02", "C08"], P + "rrt.rs", "        self.tree.clear();\n", ""),
    ("c03_rewire_unchecked", ["C03", "C15", "C17"], P + "rrt_star.rs",
     "                if cost_via_new_node < neighbour_node.cost\n                    && self.check_motion(&new_node_ref.state, &neighbour_node.state)\n                {",
     "                if cost_via_new_node < neighbour_node.cost {"),
    ("c03_resolution_coarser", ["C03", "C15"], P + "rrt.rs", "(space.get_longest_valid_segment_length() * 0.1)", "(space.get_longest_valid_segment_length() * 10.0)"),
    ("c03_prm_start_link_unchecked", ["C03", "C18"], P + "prm.rs",
     "            if pd.space.distance(start_state, &self.roadmap[i].state) < self.connection_radius\n                && self.check_motion(start_state, &self.roadmap[i].state)\n            {",
     "            if pd.space.distance(start_state, &self.roadmap[i].state) < self.connection_radius {"),
    ("c04_rv_sampler_overshoots", ["C04"], "oxmpl/src/base/spaces/real_vector_state_space.rs", "            values.push(rng.random_range(lower..upper));", "            values.push(rng.random_range(lower..upper + 1.0));"),
    ("c04_bounds_ignored_again", ["C04"], P + "rrt.rs",
     "                if !space.satisfies_bounds(&interpolated_state) || !vc.is_valid(&interpolated_state)\n                {",
     "                if !vc.is_valid(&interpolated_state) {"),
    ("c05_steer_twice_as_far", ["C05", "C16"], P + "rrt.rs", "                let t = self.max_distance / min_dist;", "                let t = (2.0 * self.max_distance / min_dist).min(1.0);"),
    ("c05_star_radius_inverted", ["C05", "C17"], P + "rrt_star.rs", "                if pd.space.distance(&node.state, &self.tree[i].state) < self.search_radius {", "                if pd.space.distance(&node.state, &self.tree[i].state) > self.search_radius {"),
    ("c06_deadline_whole_seconds", ["C06"], P + "rrt.rs", "            if start_time.elapsed() > timeout {", "            if start_time.elapsed().as_secs() > timeout.as_secs() {"),
    ("c06_deadline_every_other", ["C06"], P + "rrt_star.rs", "            if start_time.elapsed() > timeout {", "            if self.tree.len() % 2 == 0 && start_time.elapsed() > timeout {"),
    ("c06_prm_partial_chain", ["C06", "C02", "C18"], P + "prm.rs", "        let goal_node_idx = goal_reached.ok_or(PlanningError::NoSolutionFound)?;", "        let goal_node_idx = goal_reached.unwrap_or(start_connections[0]);"),
    ("c07_unseeded_sample", ["C07"], P + "rrt.rs", "                pd.space.sample_uniform(&mut rng).unwrap()", "                pd.space.sample_uniform(&mut rand::rng()).unwrap()"),
    ("c07_prm_rng_not_restored", ["C07"], P + "prm.rs", "        self.rng = Some(rng);\n", ""),
    ("c08_unsampled_check_dropped", ["C08"], P + "prm.rs", "        if self.roadmap.is_empty() {\n            return Err(PlanningError::UnsampledStateSpace);\n        }\n", ""),
    ("c08_unwrap_problem_def", ["C08"], P + "rrt_star.rs",
     "        let pd = self\n            .problem_def\n            .as_ref()\n            .ok_or(PlanningError::PlannerUninitialised)?;\n        let goal = &pd.goal;\n\n        // The tree root",
     "        let pd = self.problem_def.as_ref().unwrap();\n        let goal = &pd.goal;\n\n        // The tree root"),
    ("c15_parent_off_by_one", ["C15", "C16"], P + "rrt.rs", "                    parent_index: Some(nearest_node_index),", "                    parent_index: Some(nearest_node_index.saturating_sub(1)),"),
    ("c17_rewire_on_equal_cost", ["C17"], P + "rrt_star.rs", "                if cost_via_new_node < neighbour_node.cost\n", "                if cost_via_new_node <= neighbour_node.cost\n"),
    ("c16_farthest_node", ["C16"], P + "rrt.rs", "                if dist < min_dist {", "                if dist > min_dist {"),
    ("c16_goal_bias_inverted", ["C16"], P + "rrt.rs", "            let q_rand = if rng.random_bool(self.goal_bias) {", "            let q_rand = if !rng.random_bool(self.goal_bias) {"),
    ("c16_larger_tree_first", ["C16"], P + "rrt_connect.rs", "                if self.start_tree.len() <= self.goal_tree.len() {", "                if self.start_tree.len() > self.goal_tree.len() {"),
    ("c17_dearest_parent", ["C17"], P + "rrt_star.rs", "                if cost_via_neighbour < min_cost && self.check_motion(&neighbour_node.state, &q_new)", "                if cost_via_neighbour > min_cost && self.check_motion(&neighbour_node.state, &q_new)"),
    ("c17_rewire_keeps_cost", ["C17"], P + "rrt_star.rs", "                    mutable_neighbour_node.cost = cost_via_new_node;\n", ""),
    ("c18_one_directional_links", ["C18"], P + "prm.rs", "                for i in to_update {\n                    self.roadmap[i].edges.push(new_node_idx);\n                }\n", ""),
    ("c18_bfs_pop_back", ["C18"], P + "prm.rs", "        while let Some(current_idx) = queue.pop_front() {", "        while let Some(current_idx) = queue.pop_back() {"),
    ("c18_rebuild_on_second_construct", ["C18"], P + "prm.rs", "            return Ok(());\n        }\n\n        let mut rng = self", "        }\n\n        let mut rng = self"),
    ("c19_swapped_ctor_args", ["C19"], PY + "geometric/rrt.rs", "                let planner_instance = RrtForSE2::new(max_distance, goal_bias, &planner_config.0);", "                let planner_instance = RrtForSE2::new(goal_bias, max_distance, &planner_config.0);"),
    ("c19_so2_bounds_swallowed", ["C19"], PY + "base/so2_state_space.rs", "Err(e) => Err(PyValueError::new_err(e.to_string())),", "Err(_) => Ok(Self(Arc::new(Mutex::new(OxmplSO2StateSpace::new(None).unwrap())))),"),
    ("c20_validity_error_is_true", ["C20"], PY + "base/state_validity_checker.rs", "                    e.print(py);\n                    false\n", "                    e.print(py);\n                    true\n"),
    ("c20_goal_error_is_true", ["C20"], PY + "base/goal.rs", "                .unwrap_or(false)", "                .unwrap_or(true)"),
    # the LAST of the six per-state-type glue functions (compound states) fails open
    ("c20_last_glue_error_is_true", ["C20"], PY + "base/state_validity_checker.rs", ("last", "                    e.print(py);\n                    false\n"), "                    e.print(py);\n                    true\n"),
    # one-entry memo in the RealVector glue: key written before the call, verdict only on Ok, so a
    # failing query repeated immediately is answered from the previous query's (stale) verdict
    ("c20_rv_validity_memo", ["C20"], PY + "base/state_validity_checker.rs",
     [("impl StateValidityChecker<OxmplRealVectorState> for PyStateValidityChecker {\n    fn is_valid(&self, state: &OxmplRealVectorState) -> bool {\n",
       "thread_local! {\n    static LAST_QUERY: std::cell::RefCell<(usize, Vec<f64>, bool)> = const { std::cell::RefCell::new((0, Vec::new(), false)) };\n}\n\nimpl StateValidityChecker<OxmplRealVectorState> for PyStateValidityChecker {\n    fn is_valid(&self, state: &OxmplRealVectorState) -> bool {\n        // Repeated checks of the same point do not need to re-enter Python.\n        let key = self.callback.as_ptr() as usize;\n        let hit = LAST_QUERY.with(|l| {\n            let l = l.borrow();\n            if l.0 == key && l.1 == state.values { Some(l.2) } else { None }\n        });\n        if let Some(v) = hit {\n            return v;\n        }\n        LAST_QUERY.with(|l| {\n            let mut l = l.borrow_mut();\n            l.0 = key;\n            l.1 = state.values.clone();\n        });\n"),
      ("                Ok(is_valid) => is_valid,\n", "                Ok(is_valid) => {\n                    LAST_QUERY.with(|l| l.borrow_mut().2 = is_valid);\n                    is_valid\n                }\n")],
     None),
]


def main():
    os.makedirs(OUT, exist_ok=True)
    index = []
    ok = True
    for name, props, rel, old, new in M:
        src = open(os.path.join(REPO, rel)).read()
        # `old` is a string (first occurrence), ("last", string) or a list of (old, new) pairs
        pairs = old if isinstance(old, list) else [(old, new)]
        dst = src
        missing = False
        for o, n_ in pairs:
            last = isinstance(o, tuple)
            if last:
                o = o[1]
            if dst.count(o) < 1:
                missing = True
                break
            if last:
                k = dst.rindex(o)
                dst = dst[:k] + n_ + dst[k + len(o):]
            else:
                dst = dst.replace(o, n_, 1)
        if missing:
            print(f"SKIP {name}: pattern not found in {rel}")
            ok = False
            continue
        diff = difflib.unified_diff(src.splitlines(True), dst.splitlines(True), "a/" + rel, "b/" + rel)
        with open(os.path.join(OUT, name + ".patch"), "w") as f:
            f.writelines(diff)
        index.append(f"{name} {','.join(props)}")
    with open(os.path.join(OUT, "INDEX"), "w") as f:
        f.write("\n".join(index) + "\n")
    print(f"wrote {len(index)} mutants to {OUT}")
    return 0 if ok else 1


if __name__ == "__main__":
    sys.exit(main())
