#!/bin/bash
# tools/try_patch.sh <patch.diff> [ID ...]
# Applies a patch to /repo's working tree, runs the named checks (default: all) at quick depth
# with outputs redirected to target/try/<name>, prints which of them raise a violation and
# whether each replay reproduces, and reverts /repo straight afterwards.
cd "$(dirname "$0")/.."
V="$(pwd)"
patch="$(readlink -f "$1")"; shift
ids="${*:-C01 C02 C03 C04 C05 C06 C07 C08 C15 C16 C17 C18 C19 C20}"
if ! git -C /repo diff --quiet; then echo "refusing: /repo has uncommitted changes"; exit 2; fi
trap 'git -C /repo checkout -- . 2>/dev/null' EXIT
name="$(basename "$(dirname "$patch")")"
out="$V/target/try/$name"; rm -rf "$out"; mkdir -p "$out"
if ! git -C /repo apply "$patch"; then echo "APPLY-FAIL $patch"; exit 2; fi
caught=""
for p in $ids; do
  env VERIF_OUT="$out" ${TIER_ENV:-} ./check "$p" "${TIER:-quick}" > "$out/$p.log" 2>&1; rc=$?
  if [ $rc = 1 ]; then
    rp=$(grep -m1 -o 'replay=[^ ]*' "$out/$p.log" | cut -d= -f2)
    ./check --replay "$rp" > "$out/$p.replay.log" 2>&1; rrc=$?
    sig=$(grep -m1 -o 'sig=[^ ]*' "$out/$p.log")
    echo "  $p: VIOLATION $sig (replay rc=$rrc)"
    caught="$caught $p"
  elif [ $rc = 2 ]; then echo "  $p: HARNESS ERROR (see $out/$p.log)"; tail -3 "$out/$p.log"
  fi
done
git -C /repo checkout -- .
# rebuild on the clean tree: the binaries must never be left built from a patched /repo
[ -z "${TRY_NO_REBUILD:-}" ] && ./check build >/dev/null 2>&1
echo "$name: caught by:${caught:- NONE}"
