#!/bin/bash
# Sensitivity proof: every mutant in /verif/mutants (a realistic change that breaks a property)
# must make that property's quick check exit 1, and the replay file it writes must reproduce.
# Applies each patch to /repo's working tree and reverts it straight afterwards.
# Because it patches /repo in place, nothing else that builds from /repo (another check, a
# background `vp run`) may be running meanwhile; on a mirror (tools/matrix.sh with MX_KEEP=1)
# the same script works on the mirror's own worktree: cd <mirror>/verif && ./check sensitivity
#   tools/sensitivity.sh [name-filter]
cd "$(dirname "$0")/.."
V="$(pwd)"
if ! git -C /repo diff --quiet; then echo "refusing: /repo has uncommitted changes"; exit 2; fi
trap 'git -C /repo checkout -- . 2>/dev/null' EXIT
out="$V/target/sensitivity"; rm -rf "$out"; mkdir -p "$out"
caught=0; missed=0
while read -r name props; do
  [ -n "${1:-}" ] && [[ "$name" != *"$1"* ]] && continue
  if ! git -C /repo apply "$V/mutants/$name.patch" 2>"$out/$name.apply"; then echo "APPLY-FAIL $name"; missed=$((missed+1)); continue; fi
  res=""
  hit=no
  for p in ${props//,/ }; do
    VERIF_OUT="$out/$name" ./check "$p" quick > "$out/$name.$p.log" 2>&1
    rc=$?
    if [ $rc = 1 ]; then
      rp=$(grep -m1 -o 'replay=[^ ]*' "$out/$name.$p.log" | cut -d= -f2)
      ./check --replay "$rp" > "$out/$name.$p.replay.log" 2>&1; rrc=$?
      res="$res $p:caught(replay rc=$rrc)"
      [ "$p" = "${props%%,*}" ] && [ $rrc = 1 ] && hit=yes
    elif [ $rc = 2 ]; then
      res="$res $p:HARNESS-ERROR"
    else
      res="$res $p:missed"
    fi
  done
  git -C /repo checkout -- .
  if [ $hit = yes ]; then caught=$((caught+1)); echo "CAUGHT $name:$res"; else missed=$((missed+1)); echo "MISSED $name:$res"; fi
done < "$V/mutants/INDEX"
echo "sensitivity: caught=$caught missed=$missed"
# rebuild on the clean tree so that later checks start from a warm, correct build
./check build >/dev/null 2>&1
[ $missed = 0 ]
