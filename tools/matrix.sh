#!/bin/bash
# tools/matrix.sh <out-log> <patch-dir> [<patch-dir> ...]
# Development aid (not a registered check): runs every quick check against every given seeded
# change on a *mirror* — a scratch git worktree of /repo's HEAD and a copy of /verif's working
# tree whose paths point at that worktree — so that /repo and /verif stay free for editing
# while the matrix runs. Each <patch-dir> holds patch.diff. Results: one "caught by:" line per
# change in <out-log>. The mirror lives under /tmp/mx and is removed at the end.
# Env: MX_IDS="C01 C02 ..." restricts the checks; MX_OWN=1 runs only the change's own property check;
# MX_KEEP=1 keeps the mirror.
set -u
V="$(cd "$(dirname "$0")/.." && pwd)"
log="$(readlink -f "$1")"; shift
MX="${MX_DIR:-/tmp/mx}"
rm -rf "$MX/verif"; mkdir -p "$MX"
if [ -d "$MX/repo" ]; then git -C /repo worktree remove --force "$MX/repo" 2>/dev/null; rm -rf "$MX/repo"; fi
git -C /repo worktree add --detach "$MX/repo" HEAD >/dev/null 2>&1 || { echo "cannot create mirror worktree"; exit 2; }
mkdir -p "$MX/verif"
rsync -a --exclude target --exclude .git --exclude replays "$V/" "$MX/verif/"
sed -i "s#/repo#$MX/repo#g" "$MX/verif/check" "$MX/verif/tools/sensitivity.sh" "$MX/verif/tools/try_patch.sh" "$MX/verif/py/build_ext.sh" "$MX/verif/sim/Cargo.toml"
: > "$log"
( cd "$MX/verif" && ./check build ) >> "$log" 2>&1 || { echo "mirror build failed" >> "$log"; exit 2; }
for d in "$@"; do
  d="$(readlink -f "$d")"
  ids="${MX_IDS:-}"
  # MX_OWN=1: only the check of the property the change was written against (directory name prefix)
  if [ -n "${MX_OWN:-}" ]; then ids="$(basename "$d" | cut -d- -f1)"; fi
  ( cd "$MX/verif" && TRY_NO_REBUILD=1 tools/try_patch.sh "$d/patch.diff" $ids ) >> "$log" 2>&1
done
echo "MATRIX-DONE" >> "$log"
if [ -z "${MX_KEEP:-}" ]; then
  git -C /repo worktree remove --force "$MX/repo" 2>/dev/null
  rm -rf "$MX"
fi
