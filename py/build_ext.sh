#!/bin/bash
# Builds the real oxmpl_py extension from /repo's working tree with the core's `verif` feature
# (virtual clock) switched on. No file in oxmpl-py is touched. Output: target/py/site/oxmpl_py.so
set -e
V="$(cd "$(dirname "$0")/.." && pwd)"
export CARGO_TARGET_DIR="$V/target/py"
export CARGO_NET_OFFLINE=true
mkdir -p "$V/target/py/site"
LOG="$V/target/build-py.log"
if ! (cd /repo && cargo build -p oxmpl-py --features oxmpl/verif --offline >"$LOG" 2>&1); then
    echo "harness error: building oxmpl_py failed (see $LOG)"; tail -n 30 "$LOG"; exit 2
fi
cp -f "$V/target/py/debug/liboxmpl_py.so" "$V/target/py/site/oxmpl_py.so"
echo "$V/target/py/site"
