#!/usr/bin/env python3
"""pysim — Python side of the deterministic simulation for oxmpl (properties C19, C20).

The real `oxmpl_py` extension (built from /repo with the core's `verif` feature, so that the
planners read the virtual clock configured by OXMPL_VERIF_CLOCK_TICK_NS) is the system under
test; the Rust core driven by `oxsim` is the reference.

  pysim.py check C19|C20 quick|thorough
  pysim.py replay <file>
"""
import json
import math
import os
import subprocess
import sys
import time

VERIF = os.environ.get("VERIF_DIR") or os.path.dirname(os.path.dirname(os.path.abspath(__file__)))
TICK_NS = 1_000_000
os.environ["OXMPL_VERIF_CLOCK_TICK_NS"] = str(TICK_NS)
sys.path.insert(0, os.path.join(VERIF, "target", "py", "site"))
OXSIM = os.path.join(VERIF, "target", "sim", "release", "oxsim")
OUT = os.environ.get("VERIF_OUT") or VERIF  # where evidence and replay files go

# the bindings print Python tracebacks of failing callbacks to stderr and planner progress to
# stdout: keep our own channel
_real_out = os.fdopen(os.dup(1), "w")
_devnull = os.open(os.devnull, os.O_WRONLY)
os.dup2(_devnull, 1)
os.dup2(_devnull, 2)


def say(s):
    _real_out.write(s + "\n")
    _real_out.flush()


import oxmpl_py  # noqa: E402
from oxmpl_py import base as B, geometric as G  # noqa: E402


def bits(x):
    import struct
    return struct.unpack("<Q", struct.pack("<d", float(x)))[0]


def bits_eq(a, b):
    return len(a) == len(b) and all(bits(x) == bits(y) for x, y in zip(a, b))


# ---------------------------------------------------------------------------------------------
# building spaces / states from the scenario

def layout(spec):
    k = spec["kind"]
    if k == "RV":
        return [("RV", spec["dim"])]
    if k == "SO2":
        return [("SO2", 1)]
    if k == "SO3":
        return [("SO3", 4)]
    if k == "Compound":
        out = []
        for p in spec["parts"]:
            out += layout(p)
        return out
    if k == "SE2":
        return [("RV", 2), ("SO2", 1)]
    if k == "SE3":
        return [("RV", 3), ("SO3", 4)]
    raise ValueError(k)


def build_part(spec):
    k = spec["kind"]
    if k == "RV":
        b = spec["bounds"]
        sp = B.RealVectorStateSpace(spec["dim"], [tuple(x) for x in b] if b is not None else None)
    elif k == "SO2":
        b = spec["bounds"]
        sp = B.SO2StateSpace(tuple(b) if b is not None else None)
    elif k == "SO3":
        b = spec["bounds"]
        sp = B.SO3StateSpace((B.SO3State(*b[0]), b[1]) if b is not None else None)
    else:
        raise ValueError(k)
    sp.set_longest_valid_segment_fraction(spec["frac"])
    return sp


_LAST_PARTS = []


_MUTATE_PARTS = [False]


def build_space(spec):
    """Builds the space; the component wrappers of a compound are remembered in _LAST_PARTS (the
    compound snapshots them at construction: mutating them afterwards must have no effect)."""
    k = spec["kind"]
    del _LAST_PARTS[:]
    if k in ("RV", "SO2", "SO3"):
        return build_part(spec)
    if k == "Compound":
        parts = [build_part(p) for p in spec["parts"]]
        _LAST_PARTS.extend(parts)
        sp = B.CompoundStateSpace(parts, list(spec["weights"]))
        if _MUTATE_PARTS[0]:
            # the compound copied its components: what happens to the wrapper objects afterwards
            # must not reach it (nor a problem definition created from it later)
            for q in parts:
                if hasattr(q, "set_longest_valid_segment_fraction"):
                    q.set_longest_valid_segment_fraction(0.77)
        return sp
    if k == "SE2":
        return B.SE2StateSpace(spec["weight"], [tuple(x) for x in spec["bounds"]])
    if k == "SE3":
        return B.SE3StateSpace(spec["weight"], [tuple(x) for x in spec["bounds"]])
    raise ValueError(k)


def comp_state(kind, v):
    if kind == "RV":
        return B.RealVectorState(list(v))
    if kind == "SO2":
        return B.SO2State(v[0])
    return B.SO3State(v[0], v[1], v[2], v[3])


def dec(spec, v):
    k = spec["kind"]
    if k == "RV":
        return B.RealVectorState(list(v))
    if k == "SO2":
        return B.SO2State(v[0])
    if k == "SO3":
        return B.SO3State(*v)
    if k == "SE2":
        return B.SE2State(v[0], v[1], v[2])
    if k == "SE3":
        return B.SE3State(v[0], v[1], v[2], B.SO3State(*v[3:7]))
    comps, o = [], 0
    for kind, w in layout(spec):
        comps.append(comp_state(kind, v[o:o + w]))
        o += w
    return B.CompoundState(comps)


def enc_comp(c):
    n = type(c).__name__
    if n == "RealVectorState":
        return list(c.values)
    if n == "SO2State":
        return [c.value]
    if n == "SO3State":
        return [c.x, c.y, c.z, c.w]
    raise ValueError(n)


def enc(s):
    n = type(s).__name__
    if n in ("RealVectorState", "SO2State", "SO3State"):
        return enc_comp(s)
    if n == "SE2State":
        return [s.x, s.y, s.yaw]
    if n == "SE3State":
        r = s.rotation
        return [s.x, s.y, s.z, r.x, r.y, r.z, r.w]
    if n == "CompoundState":
        out = []
        for c in s.components:
            out += enc_comp(c)
        return out
    raise ValueError(n)


class World:
    """Same pure function of the state as oxsim's TypedWorld::valid (comparisons and the
    wrapper's own space.distance only)."""

    def __init__(self, spec, space, world):
        self.space = space
        self.obs = []
        for o in world["obstacles"]:
            sh = o["shape"]
            if sh == "Ball":
                self.obs.append(("ball", dec(spec, o["c"]), o["r"]))
            elif sh == "Shell":
                door = o.get("door")
                self.obs.append(("shell", dec(spec, o["c"]), o["r_in"], o["r_out"],
                                 (dec(spec, door[0]), door[1]) if door else None))
            elif sh == "Box":
                self.obs.append(("box", o["lo"], o["hi"]))
            elif sh == "Wall":
                self.obs.append(("wall", o["axis"], o["lo"], o["hi"], o.get("gap")))

    def valid(self, s):
        coords = None
        for o in self.obs:
            if o[0] == "ball":
                inside = self.space.distance(o[1], s) < o[2]
            elif o[0] == "shell":
                d = self.space.distance(o[1], s)
                inside = d > o[2] and d < o[3] and not (o[4] is not None and self.space.distance(o[4][0], s) < o[4][1])
            else:
                if coords is None:
                    coords = enc(s)
                if o[0] == "box":
                    inside = all(coords[i] > lo and coords[i] < hi for i, (lo, hi) in enumerate(zip(o[1], o[2])))
                else:
                    x = coords[o[1]]
                    g = o[4]
                    inside = x > o[2] and x < o[3] and not (g is not None and coords[g[0]] > g[1] and coords[g[0]] < g[2])
            if inside:
                return False
        return True


class Goal:
    def __init__(self, space, target, radius, fault=None):
        self.space, self.target, self.radius = space, target, radius
        self.fault = fault
        self.calls = 0
        self.draws = 0
        self.cycle = []

    def is_satisfied(self, s):
        self.calls += 1
        if self.fault is not None:
            r = self.fault(self.calls, s)
            if r is not None:
                return r()
        return self.space.distance(self.target, s) <= self.radius

    def distance_goal(self, s):
        return max(0.0, self.space.distance(self.target, s) - self.radius)

    def sample_goal(self):
        # a stateful sampler when the scenario gives a list: the i-th call returns cycle[i mod n]
        self.draws += 1
        if self.cycle:
            return self.cycle[(self.draws - 1) % len(self.cycle)]
        return self.target


def _rebound_method(goal, fault):
    # (the original method stays what it was: the fault lives in the new one only)
    def is_satisfied(s):
        goal.calls += 1
        r = fault(goal.calls, s)
        if r is not None:
            return r()
        return goal.space.distance(goal.target, s) <= goal.radius
    return is_satisfied


PLANNERS = {"RRT": G.RRT, "RRTConnect": G.RRTConnect, "RRTStar": G.RRTStar, "PRM": G.PRM}
FROM = {"RV": "from_real_vector", "SO2": "from_so2", "SO3": "from_so3", "Compound": "from_compound",
        "SE2": "from_se2", "SE3": "from_se3"}


def run_scenario(scn, validity=None, goal_fault=None, log=None, goal_ref=None, rebind=None):
    """Executes the scenario's calls through oxmpl_py. Returns the list of call results in the
    same shape as oxsim's `result_json`."""
    spec = scn["space"]
    _MUTATE_PARTS[0] = bool(scn["params"].get("mutate_components_after_compound"))
    space = build_space(spec)
    _MUTATE_PARTS[0] = False
    prob = scn["problems"][0]
    worlds = {}
    # history-dependent callback: the k-th validity query of the scenario answers False
    flip_at = int(scn["params"].get("validity_false_at", 0))
    vcount = [0]

    def world_of(pi):
        wi = scn["problems"][pi]["world"]
        if wi not in worlds:
            worlds[wi] = World(spec, space, scn["worlds"][wi])
        return worlds[wi]

    world = world_of(0)
    goal = Goal(space, dec(spec, prob["goal"]["target"]), prob["goal"]["radius"], None if rebind else goal_fault)
    goal.cycle = [dec(spec, c) for c in prob["goal"].get("cycle", [])] if prob["goal"].get("sampler") == "Cycle" else []
    if goal_ref is not None:
        goal_ref[0] = goal
    start = dec(spec, prob["starts"][0])
    try:
        pd = getattr(B.ProblemDefinition, FROM[spec["kind"]])(space, start, goal)
    except BaseException as e:  # building a problem definition calls no user code in the core
        return [{"res": "ctor_raised", "text": f"{type(e).__name__}: {e}"}], space, world, goal
    if scn["params"].get("mutate_after_pd"):
        # the problem definition snapshots the space (and a compound its components) at
        # creation: what the user does to the wrapper objects afterwards must not reach the planner
        for sp in [space] + list(_LAST_PARTS):
            if hasattr(sp, "set_longest_valid_segment_fraction"):
                sp.set_longest_valid_segment_fraction(0.77)
    p = scn["planner"]
    kind = p["kind"]
    try:
        cfg = B.PlannerConfig(seed=p["seed"])
        if kind == "PRM":
            planner = G.PRM(p["prm_timeout_s"], p["connection_radius"], pd, cfg)
        elif kind == "RRTStar":
            planner = G.RRTStar(p["max_distance"], p["goal_bias"], p["search_radius"], pd, cfg)
        else:
            planner = PLANNERS[kind](p["max_distance"], p["goal_bias"], pd, cfg)
    except BaseException as e:  # the core's constructors take any parameter values
        return [{"res": "ctor_raised", "text": f"planner constructor: {type(e).__name__}: {e}"}], space, world, goal

    # A deterministic callback that remembers its answers per state OBJECT and keeps every
    # object it was handed alive (so no two live objects share an identity). Every call crosses
    # the boundary with a state object of its own, so the memo never hits and the callback is
    # the plain one — unless the glue hands the same object out twice.
    identity_memo = bool(scn["params"].get("identity_memo"))
    kept, memo = [], {}

    def default_validity(w):
        def cb(s):
            vcount[0] += 1
            if identity_memo:
                if id(s) in memo:
                    a = memo[id(s)]
                else:
                    kept.append(s)
                    a = memo[id(s)] = (vcount[0] != flip_at) and w.valid(s)
            else:
                a = (vcount[0] != flip_at) and w.valid(s)
            if log is not None:
                log.append((enc(s), a))
            return a
        return cb

    out = []
    callbacks = {}
    # A bystander: a second planner on the same problem definition, set up with a HEALTHY
    # callback before the scenario's calls and queried after them, without another setup.
    # Whatever the scenario's own planner and its (failing) callback do in between, on the same
    # thread, is none of the bystander's business.
    bystander = None
    if scn["params"].get("bystander"):
        try:
            bystander = G.RRT(p["max_distance"] if p["max_distance"] > 0 else 0.3, 0.2, pd, B.PlannerConfig(seed=p["seed"]))
            bw = world
            bystander.setup(lambda s: bw.valid(s))
        except BaseException as e:
            out.append({"res": "err", "text": "bystander setup: " + str(e)})
            bystander = None
    for c in scn["calls"]:
        op = c["op"]
        try:
            if op == "Setup":
                # the callback is bound to the world of the problem the call names (the problem
                # definition itself is fixed at construction). A user who keeps his callback
                # around passes the IDENTICAL callable to every setup with that world; scenarios
                # with the parameter `fresh_objects` build a new callable on every setup.
                wi = scn["problems"][c.get("problem", 0)]["world"]
                world = world_of(c.get("problem", 0))
                if log is not None:
                    del log[:]
                if scn["params"].get("fresh_objects") or wi not in callbacks:
                    callbacks[wi] = validity(world, log) if validity is not None else default_validity(world)
                planner.setup(callbacks[wi])
                out.append({"res": "ok"})
            elif op == "Construct":
                planner.construct_roadmap()
                out.append({"res": "ok"})
            elif op == "Solve":
                try:
                    path = planner.solve(scn["params"]["solve_timeout_secs"])
                finally:
                    if rebind and goal_fault is not None and not getattr(goal, "_rebound", False):
                        # the user replaces the goal's method on the live object after the first
                        # query: from now on the installed method is the (mis)behaving one
                        goal._rebound = True
                        goal.is_satisfied = _rebound_method(goal, goal_fault)
                states = path.states
                first = [enc(s) for s in states]
                # what client code does with the list it was handed (reorder, shorten, extend)
                # is its own business: the Path object keeps reporting the planner's path
                if len(states) > 0:
                    states.reverse()
                    states.pop()
                    states.append(states[0] if states else None)
                again = [enc(s) for s in path.states]
                if not (len(first) == len(again) and all(bits_eq(a, b) for a, b in zip(first, again))) or len(path) != len(first):
                    out.append({"res": "path_changed_after_client_edit", "text": f"Path.states read again after the client edited the returned list: {len(again)} states (len(path) = {len(path)}), first read {len(first)}"})
                else:
                    out.append({"res": "path", "path": first})
            else:
                out.append({"res": "ok"})
        except BaseException as e:  # pyo3 maps core errors to Exception; a panic is a BaseException
            name = type(e).__name__
            if name == "PanicException":
                out.append({"res": "panic", "text": str(e)})
                break
            out.append({"res": "err", "text": str(e)})
    if bystander is not None:
        try:
            path = bystander.solve(scn["params"]["solve_timeout_secs"])
            out.append({"res": "path", "path": [enc(s) for s in path.states]})
        except BaseException as e:
            out.append({"res": "panic" if type(e).__name__ == "PanicException" else "err", "text": "bystander: " + str(e)})
    return out, space, world, goal


def results_equal(a, b):
    if len(a) != len(b):
        return False, "different number of call results"
    for i, (x, y) in enumerate(zip(a, b)):
        if x["res"] != y["res"]:
            return False, f"call #{i}: {x['res']} ({x.get('text','')}) vs {y['res']} ({y.get('text','')})"
        if x["res"] == "path":
            if len(x["path"]) != len(y["path"]):
                return False, f"call #{i}: path lengths {len(x['path'])} vs {len(y['path'])}"
            for k, (s, t) in enumerate(zip(x["path"], y["path"])):
                if not bits_eq(s, t):
                    return False, f"call #{i}: path state #{k} differs: {s} vs {t}"
        elif x["res"] in ("err", "panic") and x.get("text") != y.get("text"):
            return False, f"call #{i}: error text {x.get('text')!r} vs {y.get('text')!r}"
    return True, ""


# ---------------------------------------------------------------------------------------------
# C19

def eff_frac(f):
    # what the core's setter stores: (0,1] as given, above 1 -> 1, non-positive -> unchanged default
    if f > 0.0 and f <= 1.0:
        return f
    if f <= 0.0:
        return 0.05
    return 1.0


def lvs(spec):
    k = spec["kind"]
    if k == "RV":
        b = spec["bounds"]
        return math.sqrt(sum((hi - lo) ** 2 for lo, hi in b)) * eff_frac(spec["frac"])
    if k == "SO2":
        return math.pi * eff_frac(spec["frac"])
    if k == "SO3":
        return 0.5 * math.pi * eff_frac(spec["frac"])
    if k == "Compound":
        return math.sqrt(sum((lvs(p) * w) ** 2 for p, w in zip(spec["parts"], spec["weights"])))
    if k == "SE2":
        b = spec["bounds"]
        return math.sqrt((math.sqrt(sum((hi - lo) ** 2 for lo, hi in b[:2])) * 0.05) ** 2 + (spec["weight"] * math.pi * 0.05) ** 2)
    b = spec["bounds"]
    return math.sqrt((math.sqrt(sum((hi - lo) ** 2 for lo, hi in b)) * 0.05) ** 2 + (spec["weight"] * 0.5 * math.pi * 0.05) ** 2)


def prm_soundness(scn, res, space, world, goal, log):
    """PRM paths: sound with respect to the Python callbacks (valid states, endpoints, spacing,
    every segment covered by accepted queries at the resolution)."""
    spec = scn["space"]
    # `world` and `log` belong to the most recent setup: only the solves after it are judged
    last_setup = max([i for i, c in enumerate(scn["calls"]) if c["op"] == "Setup"] or [0])
    for i, c in enumerate(res):
        if c["res"] != "path" or i < last_setup:
            continue
        p = c["path"]
        start = scn["problems"][0]["starts"][0]
        if not p or not bits_eq(p[0], start):
            return "C19/prm_first_not_start", "PRM path does not begin at the start state"
        states = [dec(spec, s) for s in p]
        if not all(world.valid(s) for s in states):
            return "C19/prm_invalid_state", "PRM path contains a state the Python checker rejects"
        if not (space.distance(goal.target, states[-1]) <= goal.radius):
            return "C19/prm_last_not_goal", "PRM path does not end in the goal"
        r = scn["planner"]["connection_radius"]
        L = lvs(spec)
        acc = [dec(spec, q) for q, a in log if a]
        so3 = any(k == "SO3" for k, _ in layout(spec))
        # SO(3) distances carry an absolute noise near 0 that a compound weight multiplies
        wscale = 1.0
        if spec["kind"] == "Compound":
            for part, w in zip(spec["parts"], spec["weights"]):
                if part["kind"] == "SO3":
                    wscale = max(wscale, w)
        elif spec["kind"] == "SE3":
            wscale = max(wscale, spec["weight"])
        for a, b in zip(states, states[1:]):
            dab = space.distance(a, b)
            if not (dab <= r * (1 + (2e-4 if so3 else 1e-9)) + 1e-7 * wscale):
                return "C19/prm_step_exceeded", f"PRM segment of length {dab} exceeds the connection radius {r}"
            if not (L > 0) or dab <= L * (1 + 1e-3):
                continue
            tol = (1e-6 * wscale if so3 else 1e-9) * (1 + dab)
            pos = []
            for q in acc:
                dq = space.distance(a, q)
                if dq <= dab + tol and abs(dq + space.distance(q, b) - dab) <= tol:
                    pos.append(dq)
            pos.sort()
            prev = 0.0
            for x in pos + [dab]:
                if x - prev > L * (1 + 1e-3) + 1e-7 * wscale:
                    return "C19/prm_unchecked_gap", f"PRM segment has no accepted validity query for a stretch of {x - prev} (L={L})"
                prev = max(prev, x)
    return None


def check_wrapper_case(case):
    """ValueError iff the core constructor returns Err; distances, extents and stored values
    bit-equal to the core's."""
    exp = case["expect"]
    ctor = case["ctor"]
    try:
        if ctor == "RV":
            b = case["bounds"]
            sp = B.RealVectorStateSpace(case["dim"], [tuple(x) for x in b] if b is not None else None)
            mk = lambda v: B.RealVectorState(list(v))
        elif ctor == "SO2":
            b = case["bounds"]
            sp = B.SO2StateSpace(tuple(b) if b is not None else None)
            mk = lambda v: B.SO2State(v)
        elif ctor == "SO3":
            b = case["bounds"]
            sp = B.SO3StateSpace((B.SO3State(*b[0]), b[1]) if b is not None else None)
            mk = lambda v: B.SO3State(*v)
        elif ctor == "SE2":
            b = case["bounds"]
            sp = B.SE2StateSpace(case["weight"], [tuple(x) for x in b] if b is not None else None)
            mk = lambda v: B.SE2State(*v)
        elif ctor == "SE3":
            b = case["bounds"]
            sp = B.SE3StateSpace(case["weight"], [tuple(x) for x in b] if b is not None else None)
            mk = lambda v: B.SE3State(v[0][0], v[0][1], v[0][2], B.SO3State(*v[1]))
        elif ctor == "SO2State":
            s = B.SO2State(case["value"])
            got = [s.value]
            return None if bits_eq(got, exp["stored"]) else f"SO2State({case['value']}) stores {got}, core stores {exp['stored']}"
        elif ctor == "SE2State":
            s = B.SE2State(*case["args"])
            got = [s.x, s.y, s.yaw]
            return None if bits_eq(got, exp["stored"]) else f"SE2State{tuple(case['args'])} stores {got}, core stores {exp['stored']}"
        elif ctor == "Compound":
            sp = B.CompoundStateSpace([B.RealVectorStateSpace(1, [(-10.0, 10.0)]), B.SO2StateSpace(None)], list(case["weights"]))
            mk = lambda v: B.CompoundState([B.RealVectorState([v[0]]), B.SO2State(v[1])])
            case = dict(case)
            exp = dict(exp)
            exp["a"], exp["b"] = case["a"], case["b"]
        else:
            return f"unknown ctor {ctor}"
    except ValueError as e:
        if exp["err"] is None:
            return f"{ctor} constructor raised ValueError({e}) but the core constructor succeeds"
        if ctor != "Compound" and str(e) != exp["err"]:
            return f"{ctor} constructor raised ValueError({e}) but the core error reads {exp['err']!r}"
        return None
    except BaseException as e:
        return f"{ctor} constructor raised {type(e).__name__}({e}); the core returns {'Err' if exp['err'] else 'Ok'}"
    if exp["err"] is not None:
        return f"{ctor} constructor succeeded in Python but the core returns Err({exp['err']})"
    if "extent" in exp and hasattr(sp, "get_maximum_extent"):
        got = sp.get_maximum_extent()
        if bits(got) != bits(exp["extent"]):
            return f"{ctor}.get_maximum_extent() = {got}, core = {exp['extent']}"
    if "distance" in exp and "a" in exp:
        got = sp.distance(mk(exp["a"]), mk(exp["b"]))
        want = exp["distance"]
        if want == "nan":
            if not math.isnan(got) and math.isfinite(got):
                return f"{ctor}.distance = {got}, core = non-finite"
        elif bits(got) != bits(want):
            return f"{ctor}.distance({exp['a']},{exp['b']}) = {got!r}, core = {want!r}"
        # equal arguments: also the very same Python object passed twice (the core has no notion
        # of object identity: d(s, s) is whatever its formula gives for equal values)
        if exp["a"] == exp["b"]:
            s_ = mk(exp["a"])
            got = sp.distance(s_, s_)
            if want == "nan":
                if not math.isnan(got) and math.isfinite(got):
                    return f"{ctor}.distance(s, s) = {got} for one object s, core = non-finite"
            elif bits(got) != bits(want):
                return f"{ctor}.distance(s, s) = {got!r} for one object s = {exp['a']}, core = {want!r}"
    return None


# ---------------------------------------------------------------------------------------------
# C20 fault plans

class Boom(Exception):
    pass


class _Truthy:
    def __bool__(self):
        return True


class _Flag(int):
    pass


def _attr_error():
    return None.free  # a genuine AttributeError from inside the callback


def _raiser(exc):
    def raise_():
        raise exc("injected callback failure")
    return raise_


# kind -> (label, behaviour). Kinds 0-5 are the original six (replay files refer to them by
# number); the others widen the two classes the property names: "raises" (any exception type)
# and "returns a non-boolean" (anything that is not a Python bool, truthy or falsy).
FAULT_KINDS = [
    ("raise", _raiser(Boom)), ("return_None", lambda: None), ("return_1", lambda: 1), ("return_str", lambda: "yes"),
    ("raise", _raiser(Boom)), ("return_float", lambda: 0.0),
    ("raise_AttributeError", _attr_error), ("raise_TypeError", _raiser(TypeError)), ("raise_ValueError", _raiser(ValueError)),
    ("raise_KeyError", _raiser(KeyError)), ("raise_ZeroDivisionError", lambda: 1 // 0), ("raise_StopIteration", _raiser(StopIteration)),
    ("return_0", lambda: 0), ("return_2", lambda: 2), ("return_list", lambda: [True]), ("return_tuple", lambda: (True,)),
    ("return_truthy_object", lambda: _Truthy()), ("return_int_subclass", lambda: _Flag(1)), ("return_1.0", lambda: 1.0),
    ("return_bytes", lambda: b"\x01"), ("raise_RuntimeError", _raiser(RuntimeError)), ("raise_AssertionError", _raiser(AssertionError)),
    ("raise_IndexError", _raiser(IndexError)), ("return_NotImplemented", lambda: NotImplemented),
]
RAISING = [i for i, (n, _) in enumerate(FAULT_KINDS) if n.startswith("raise")]


def misbehave(kind):
    return FAULT_KINDS[kind % len(FAULT_KINDS)][1]


def c20_twins(scn):
    """Returns (faulty result, False-twin result, fault count, states on which the callback failed)."""
    spec = scn["space"]
    kind = int(scn["params"]["fault_kind"])
    kth = int(scn["params"]["fault_kth"])
    target = int(scn["params"]["fault_target"])
    failed_states = []
    fired = [0]
    goal_ref = [None]

    def make_validity(faulty):
        def factory(world, log):
            fault_world = None
            n = [0]

            def cb(s):
                nonlocal fault_world
                n[0] += 1
                if fault_world is None:
                    fault_world = World(spec, world.space, scn["worlds"][1])
                if scn["params"].get("fault_everywhere"):
                    hit = True
                else:
                    hit = (n[0] == kth) if kth > 0 else (world.valid(s) and not fault_world.valid(s))
                if hit and target != 2:
                    if faulty:
                        fired[0] += 1
                        failed_states.append(enc(s))
                        return misbehave(kind)()
                    return False
                return world.valid(s)
            return cb
        return factory

    # the goal predicate fails at exactly the call at which the planner would have reached the
    # goal: a dry run without faults finds the last is_satisfied call that answered True
    if target == 2 and kth > 0 and scn["params"].get("fault_at_goal_call"):
        answers = []

        def spy(ncall, s):
            g = goal_ref[0]
            answers.append(g.space.distance(g.target, s) <= g.radius)
            return None
        run_scenario(scn, validity=None, goal_fault=spy, goal_ref=goal_ref)
        hits = [i + 1 for i, a in enumerate(answers) if a]
        if hits:
            kth = hits[-1] if kind % 2 == 0 else hits[0]

    def make_goal_fault(faulty):
        if target != 2:
            return None

        def gf(ncall, s):
            if kth > 0:
                hit = ncall == kth
            else:
                # region fault for the goal predicate: states in the outer half of the goal ball
                g = goal_ref[0]
                d = g.space.distance(g.target, s)
                hit = d <= g.radius and d > 0.5 * g.radius
            if hit:
                if faulty:
                    fired[0] += 1
                    return misbehave(RAISING[kind % len(RAISING)])
                return lambda: False
            return None
        return gf

    rebind = bool(scn["params"].get("goal_rebind")) and target == 2
    a, _, _, _ = run_scenario(scn, validity=make_validity(True), goal_fault=make_goal_fault(True), goal_ref=goal_ref, rebind=rebind)
    b, space, world, goal = run_scenario(scn, validity=make_validity(False), goal_fault=make_goal_fault(False), goal_ref=goal_ref, rebind=rebind)
    # region faults of the goal predicate: where does a returned path end? (for `goal_rebind`
    # only the queries after the first one run with the failing method installed)
    ends_in_fault_region = None
    if target == 2 and kth == 0:
        for ci, c in enumerate(a):
            if c["res"] == "path" and c["path"]:
                if rebind and ci <= [i for i, x in enumerate(scn["calls"]) if x["op"] == "Solve"][0]:
                    continue
                last = dec(spec, c["path"][-1])
                d = goal.space.distance(goal.target, last)
                if d <= goal.radius and d > 0.5 * goal.radius:
                    ends_in_fault_region = c["path"][-1]
    return a, b, fired[0], failed_states, ends_in_fault_region


# ---------------------------------------------------------------------------------------------
# driver

def oxsim(*args):
    env = dict(os.environ)
    env["VERIF_DIR"] = VERIF
    r = subprocess.run([OXSIM, *args], capture_output=True, text=True, env=env)
    if r.returncode != 0:
        say(f"harness error: oxsim {' '.join(args)} failed: {r.stdout} {r.stderr}")
        sys.exit(2)
    return r.stdout


def write_replay(prop, sig, scn, extra=None):
    os.makedirs(os.path.join(OUT, "replays"), exist_ok=True)
    import hashlib
    h = hashlib.sha1((sig + json.dumps(scn, sort_keys=True)).encode()).hexdigest()[:12]
    path = os.path.join(OUT, "replays", f"{prop}-py-{h}.json")
    doc = {"engine": "pysim", "property": prop, "expect": {"violation": sig}, "scenario": scn}
    if extra:
        doc.update(extra)
    with open(path, "w") as f:
        json.dump(doc, f, indent=1)
    return path


def load_known():
    try:
        with open(os.path.join(VERIF, "known_findings.json")) as f:
            k = json.load(f)
        return {(x["property"], x["signature"]): x["what"] for x in k.get("findings", [])}
    except Exception:
        return {}


def eval_c19(doc):
    scn = doc["scenario"]
    log = []
    res, space, world, goal = run_scenario(scn, log=log)
    kind = scn["planner"]["kind"]
    nontrivial = any(c["res"] == "path" for c in res)
    if any(c["res"] == "panic" for c in res) and not any(c["res"] == "panic" for c in doc["rust"]["calls"]):
        return ("C19/python_panics/" + kind, "the Python planner raised PanicException where the core returns normally: " + str(res[-1].get("text"))), nontrivial, len(log)
    if kind == "PRM":
        # the property asks for soundness only (error kinds still have to agree on well-defined
        # cases: invalid start)
        r = prm_soundness(scn, res, space, world, goal, log)
        if r is not None:
            return r, nontrivial, len(log)
        # errors that are decided by the API state alone (not by what was sampled): invalid
        # start, planner not set up, roadmap not constructed — Python must report what the core
        # reports, at every call
        for ci, (rc, pc) in enumerate(zip(doc["rust"]["calls"], res)):
            if rc["res"] == "err" and rc.get("api_state") and (pc["res"] != "err" or pc.get("text") != rc.get("text")):
                return ("C19/prm_error_differs", f"call #{ci}: the core reports {rc.get('text')!r}, Python {pc['res']} {pc.get('text', '')!r}"), nontrivial, len(log)
        return None, nontrivial, len(log)
    ok, why = results_equal(res, doc["rust"]["calls"])
    if not ok:
        return (f"C19/result_differs/{kind}/{scn['space']['kind']}", f"Python {kind} and the Rust core disagree for the same seed and parameters: {why}"), nontrivial, len(log)
    return None, nontrivial, len(log)


def eval_c20(doc):
    scn = doc["scenario"]
    a, b, fired, failed, ends_bad = c20_twins(scn)
    kind = scn["planner"]["kind"]
    nontrivial = fired > 0
    if ends_bad is not None:
        return (f"C20/path_ends_where_goal_raises/{kind}", f"a returned path ends in {ends_bad}, a state on which the installed is_satisfied raises"), nontrivial, fired
    ok, why = results_equal(a, b)
    if not ok:
        tgt = "goal" if int(scn["params"]["fault_target"]) == 2 else "validity"
        return (f"C20/twin_differs/{kind}/{tgt}/kind{int(scn['params']['fault_kind'])}", f"a failing {tgt} callback and one returning False for the same states give different results: {why}"), nontrivial, fired
    # (for k-th-call faults the same state may legitimately be accepted by another call; the
    # clause is about states on which the callback fails whenever it is asked)
    # (a bystander's result, appended after the scenario's own calls, is another callback's path)
    for c in (a[:len(scn["calls"])] if int(scn["params"]["fault_kth"]) == 0 else []):
        if c["res"] == "path":
            for s in c["path"]:
                if any(bits_eq(s, f) for f in failed):
                    return (f"C20/path_through_failed_state/{kind}", f"the returned path contains {s}, a state on which the callback failed"), nontrivial, fired
    # three-way: the Rust core with the fault region as an obstacle (region faults on validity only)
    if int(scn["params"]["fault_kth"]) == 0 and int(scn["params"]["fault_target"]) != 2 and kind != "PRM":
        ok, why = results_equal(a, doc["rust"]["calls"])
        if not ok:
            return (f"C20/differs_from_core_with_obstacle/{kind}", f"failing callback vs the Rust core treating the fault region as invalid: {why}"), nontrivial, fired
    return None, nontrivial, fired


_DOCS, _PROP = [], ""

# Isolation and watchdog. Every scenario is evaluated in a process of its own, forked from a
# worker that has imported the extension but never called into it: state that outlives a planner
# object (a process-global cache inside the extension, say) therefore cannot leak from one
# scenario into the next, and the outcome of a scenario does not depend on which scenarios the
# same worker happened to run before — the sweep and the replay see the same execution.
# A run that never returns (the planner spins without reading the clock, or allocates without
# bound) must become a VIOLATION, not a check that never ends: the child gets 120 s of its own
# CPU time (RLIMIT_CPU; the kernel then terminates it with SIGXCPU — wall time plays no role, so
# a stopped or starved process raises no alarm) and 8 GB of address space (an allocation beyond
# that aborts it).
HANG_CPU_S = 120
MEM_LIMIT = 8 << 30


def _arm_limits():
    import resource
    soft = int(time.process_time()) + HANG_CPU_S + 1
    resource.setrlimit(resource.RLIMIT_CPU, (soft, resource.RLIM_INFINITY))
    resource.setrlimit(resource.RLIMIT_CORE, (0, 0))
    try:
        resource.setrlimit(resource.RLIMIT_AS, (MEM_LIMIT, MEM_LIMIT))
    except (ValueError, OSError):
        pass


def _isolated(fn):
    """Runs fn() in a forked child under the watchdog limits. Returns ("ok", value),
    ("error", text) for a Python exception, or ("died", text) if the child was terminated."""
    import pickle
    import signal
    r, w = os.pipe()
    pid = os.fork()
    if pid == 0:
        code = 0
        try:
            os.close(r)
            _arm_limits()
            try:
                out = ("ok", fn())
            except Exception as e:
                out = ("error", f"{type(e).__name__}: {e}")
            with os.fdopen(w, "wb") as f:
                pickle.dump(out, f)
        except BaseException:
            code = 3
        finally:
            os._exit(code)
    os.close(w)
    with os.fdopen(r, "rb") as f:
        data = f.read()
    _, status = os.waitpid(pid, 0)
    if os.WIFSIGNALED(status):
        sig = os.WTERMSIG(status)
        name = signal.Signals(sig).name if sig in signal.Signals._value2member_map_ else str(sig)
        why = ("more than %d s of CPU time without returning" % HANG_CPU_S) if name == "SIGXCPU" else "allocation beyond the memory limit or a crash of the extension"
        return ("died", f"the run was terminated by {name} ({why})")
    try:
        return pickle.loads(data)
    except Exception as e:
        return ("error", f"no result from the child process ({type(e).__name__}: {e}, exit status {status})")


def _eval_one(i):
    out = _isolated(lambda: (eval_c19 if _PROP == "C19" else eval_c20)(_DOCS[i]))
    if out[0] == "ok":
        r, nt, aux = out[1]
        return ("ok", r, nt, aux)
    return out


def do_check(prop, tier):
    t0 = time.time()
    seed = int(os.environ.get("VERIF_SEED", "20261004"))
    n = int(os.environ.get("VERIF_RUNS", "0")) or {("C19", "quick"): 9600, ("C19", "thorough"): 192000, ("C20", "quick"): 7680, ("C20", "thorough"): 153600}[(prop, tier)]
    os.makedirs(os.path.join(VERIF, "target", "mirror"), exist_ok=True)
    mpath = os.path.join(VERIF, "target", "mirror", f"{prop}.jsonl")
    oxsim("gen-mirror", prop, str(n), mpath)
    docs = [json.loads(l) for l in open(mpath)]
    known = load_known()
    viol = {}
    nontrivial = set()
    evaluations = 0
    fault_counts = {}
    queries = 0
    mix = {}
    samples = []
    results_log = []
    # scenarios are evaluated by forked worker processes (each with its own copy of the loaded
    # extension and its own process-wide virtual clock) and merged in index order, so neither
    # the worker count nor the scheduling of the workers influences any reported number
    workers = int(os.environ.get("VERIF_WORKERS", "0")) or min(16, os.cpu_count() or 1)
    global _DOCS, _PROP
    _DOCS, _PROP = docs, prop
    import multiprocessing as mp
    from concurrent.futures import ProcessPoolExecutor
    with ProcessPoolExecutor(max_workers=max(workers, 1), mp_context=mp.get_context("fork")) as ex:
        outcomes = list(ex.map(_eval_one, range(len(docs)), chunksize=8))
    for i, o in enumerate(outcomes):
        if o[0] == "died":
            sig = f"{prop}/watchdog/{docs[i]['scenario']['planner']['kind']}"
            path = write_replay(prop, sig, docs[i]["scenario"])
            say(f"VIOLATION property={prop} replay={path} sig={sig} count=1 :: scenario {i}: {o[1]}")
            return 1
    for i, doc in enumerate(docs):
        scn = doc["scenario"]
        if outcomes[i][0] == "error":
            say(f"harness error: scenario {i}: {outcomes[i][1]}")
            sys.exit(2)
        _, r, nt, aux = outcomes[i]
        evaluations += 1
        results_log.append([i, r[0] if r else None, nt, aux])
        key = f"{scn['planner']['kind']}/{scn['space']['kind']}"
        mix[key] = mix.get(key, 0) + 1
        if nt:
            nontrivial.add(json.dumps(scn, sort_keys=True))
        if prop == "C20":
            fk = FAULT_KINDS[int(scn["params"]["fault_kind"]) % len(FAULT_KINDS)][0]
            tgt = "is_satisfied" if int(scn["params"]["fault_target"]) == 2 else "validity"
            if tgt == "is_satisfied":  # the goal predicate only ever raises (that is what the property names)
                fk = FAULT_KINDS[RAISING[int(scn["params"]["fault_kind"]) % len(RAISING)]][0]
            mode = "kth_call" if int(scn["params"]["fault_kth"]) > 0 else "region"
            k = f"{tgt}/{mode}/{fk}"
            fault_counts[k] = fault_counts.get(k, 0) + aux
        else:
            queries += aux
        if r is not None:
            sig, detail = r
            viol.setdefault(sig, []).append((i, detail))
        if i in (0, len(docs) // 2, len(docs) - 1):
            samples.append({"scenario": scn, "rust_result": [c["res"] for c in doc["rust"]["calls"]]})
    wrapper_cases = 0
    if prop == "C19":
        nw = 2000 if tier == "quick" else 40000
        wpath = os.path.join(VERIF, "target", "mirror", "C19w.jsonl")
        oxsim("gen-wrappers", str(nw), wpath)
        for i, l in enumerate(open(wpath)):
            case = json.loads(l)
            wrapper_cases += 1
            why = check_wrapper_case(case)
            if why is not None:
                viol.setdefault(f"C19/wrapper/{case['ctor']}", []).append((("w", i, case), why))
            else:
                nontrivial.add(l)
    exit_code = 0
    n_viol = 0
    known_hit = []
    replays = []
    for sig, items in sorted(viol.items()):
        if (prop, sig) in known:
            say(f"KNOWN-FINDING: property={prop} {sig} — {known[(prop, sig)]} ({len(items)} scenarios in this run)")
            known_hit.append({"signature": sig, "count": len(items)})
            continue
        exit_code = 1
        n_viol += len(items)
        first, detail = items[0]
        if isinstance(first, tuple):
            path = write_replay(prop, sig, None, {"wrapper_case": first[2]})
        else:
            path = write_replay(prop, sig, docs[first]["scenario"])
        replays.append(path)
        say(f"VIOLATION property={prop} replay={path} sig={sig} count={len(items)} :: {detail}")
    import hashlib
    digest = hashlib.sha1(json.dumps(results_log, sort_keys=True).encode()).hexdigest()[:16]
    wall = time.time() - t0
    rule = {
        "C19": "scenario i (6 problem-definition variants x 4 planners round-robin, generated worlds / parameters / seeds restricted to what the Python API can express, fixed goal sample, budgets as time limits under the shared virtual clock of 1 ms per read) is executed by the Rust core (reference) and through oxmpl_py (system under test); RRT / RRT-Connect / RRT* results compared bit for bit incl. error texts, PRM for soundness w.r.t. the Python callbacks; plus the wrapper-constructor lattice (ValueError iff core Err, distance / extent / stored values bit-equal); distinct = distinct scenario or case; non-trivial = a path was returned (planner scenarios) or the case was evaluated to agreement (wrapper cases)",
        "C20": "scenario i gets a fault plan: the validity callback (or the goal's is_satisfied) raises (Boom, AttributeError, TypeError, ValueError, KeyError, ZeroDivisionError, StopIteration, RuntimeError, AssertionError, IndexError) / returns a non-boolean (None, 0, 1, 2, 1.0, 0.0, str, bytes, list, tuple, an object with __bool__, an int subclass, NotImplemented) for every state inside a fault ball placed between start and goal, or at its k-th call (k up to 256); it is run twice through oxmpl_py, once failing and once returning False at exactly those calls, and (region faults) a third time by the Rust core with the fault ball as an obstacle; results must be identical and no returned path may contain a state on which the callback failed; non-trivial = the fault actually fired at least once during planning",
    }[prop]
    ev = {
        "property_id": prop, "tier": tier, "seed": seed,
        "level": "exploration" if prop == "C19" else "fault_enumeration",
        "coverage": {
            "evaluations": evaluations + wrapper_cases,
            "distinct_nontrivial": len(nontrivial),
            "rule": rule,
            "samples": samples,
            "planner_scenarios": evaluations,
            "wrapper_cases": wrapper_cases,
            "runs_per_hour": int((evaluations * (1 if prop == "C19" else 2)) / max(wall, 1e-9) * 3600),
            "seeds": f"VERIF_SEED={seed} indices 0..{n}",
            "simulated_clock": f"{TICK_NS} ns per read (OXMPL_VERIF_CLOCK_TICK_NS)",
            "fault_counts": fault_counts,
            "python_validity_queries": queries,
            "scenario_mix": mix,
            "components": {"real": ["oxmpl_py extension built from /repo (pyo3 glue, PyGoal, PyStateValidityChecker, variant dispatch, PyPath)", "oxmpl core underneath"],
                           "virtual": ["clock inside the timed functions"], "reference": ["Rust core driven by oxsim"], "not_run": ["oxmpl-js (no wasm32 target in the sandbox)"]},
            "known_findings_hit": known_hit, "replays": replays, "run_digest": digest,
        },
        "assumptions": ["Python callbacks use only comparisons and the wrapper's own space.distance, so their arithmetic is bit-identical to the Rust reference", "the JS clause of C20 is not decided"],
        "wall_s": wall, "violations": n_viol,
    }
    os.makedirs(os.path.join(OUT, "evidence"), exist_ok=True)
    with open(os.path.join(OUT, "evidence", f"{prop}.json"), "w") as f:
        json.dump(ev, f, indent=1)
    say(f"[{prop}] scenarios={evaluations} wrapper_cases={wrapper_cases} nontrivial={len(nontrivial)} violations={n_viol} digest={digest} wall={wall:.1f}s")
    return exit_code


def do_replay(path):
    doc = json.load(open(path))
    prop = doc["property"]
    want = doc["expect"]["violation"]
    if doc.get("wrapper_case") is not None:
        why = check_wrapper_case(doc["wrapper_case"])
        if why is not None:
            say(f"VIOLATION property={prop} replay={path} sig={want} :: {why}")
            return 1
        say("replay did not reproduce " + want)
        return 2
    scn = doc["scenario"]
    tmp = os.path.join(VERIF, "target", "mirror", "replay-scn.json")
    os.makedirs(os.path.dirname(tmp), exist_ok=True)
    json.dump(scn, open(tmp, "w"))
    rust = json.loads(oxsim("run-json", tmp))
    out = _isolated(lambda: (eval_c19 if prop == "C19" else eval_c20)({"scenario": scn, "rust": rust}))
    if out[0] == "died":
        if "/watchdog/" in want:
            say(f"VIOLATION property={prop} replay={path} sig={want} :: {out[1]}")
            return 1
        say(f"replay did not reproduce {want}: {out[1]}")
        return 2
    if out[0] == "error":
        say(f"harness error while replaying: {out[1]}")
        return 2
    r, _, _ = out[1]
    if r is not None and r[0] == want:
        say(f"VIOLATION property={prop} replay={path} sig={r[0]} :: {r[1]}")
        return 1
    say(f"replay did not reproduce {want} (got {r})")
    return 2


if __name__ == "__main__":
    if len(sys.argv) >= 3 and sys.argv[1] == "check":
        tier = os.environ.get("VERIF_TIER") or (sys.argv[3] if len(sys.argv) > 3 else "quick")
        if len(sys.argv) > 3:
            tier = sys.argv[3]
        sys.exit(do_check(sys.argv[2], tier))
    if len(sys.argv) >= 3 and sys.argv[1] == "replay":
        sys.exit(do_replay(sys.argv[2]))
    say("usage: pysim.py check C19|C20 quick|thorough | replay <file>")
    sys.exit(2)
