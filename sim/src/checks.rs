//! Per-property checks: generator + evaluation. C01–C06 (results and histories of solve calls).

use crate::gen::{self, GenOpts};
use crate::oracle::{viol, Eval};
use crate::prng::{mix, Xo};
use crate::runner::{Check, Report, Tier};
use crate::sim::{run, Ev, Res, RunOpts, Snap};
use crate::spec::*;

pub struct PathProp {
    pub id: &'static str,
}

fn second_problem(scn: &mut Scenario, rng: &mut Xo, families: &[&'static str]) {
    // about a third of the second problems bring their own space object along (tighter bounds,
    // another motion-check resolution)
    let own_space = if rng.chance(0.35) { Some(gen::variant_space(rng, &scn.space, None, 0.01)) } else { None };
    let mut geo = crate::spaces::geo_for(own_space.as_ref().unwrap_or(&scn.space)).unwrap();
    let ext = scn.param("ext").unwrap_or(1.0);
    let fam = *rng.pick(families);
    let mut wb = gen::build_world(&mut geo, rng, ext, fam);
    wb.world.harness_metric = scn.worlds[0].harness_metric;
    scn.worlds.push(wb.world);
    let sampler = scn.problems[0].goal.sampler;
    scn.problems.push(ProblemSpec {
        starts: vec![wb.start],
        goal: GoalSpec { target: wb.target, radius: wb.goal_radius, sampler, sampler_seed: rng.u64() % 1_000_000, comp: wb.goal_comp, harness_metric: scn.problems[0].goal.harness_metric, cycle: vec![] },
        world: scn.worlds.len() - 1,
        space: own_space,
    });
    scn.params.insert("sealed1".into(), if wb.sealed { 1.0 } else { 0.0 });
    scn.params.insert("start_invalid1".into(), if wb.start_invalid { 1.0 } else { 0.0 });
}

/// A second problem in world 0 (the world of the checker that stays installed when a PRM's
/// problem is replaced); optionally with its start marginally inside one of world 0's balls.
fn second_problem_same_world(scn: &mut Scenario, rng: &mut Xo, invalid_start: bool) {
    second_problem_same_world_v(scn, rng, invalid_start, false, false)
}

/// `own_space`: the second problem has its own space object (a variant of the scenario's that
/// still contains the first start); `same_start`: it starts where the first problem starts.
fn second_problem_same_world_v(scn: &mut Scenario, rng: &mut Xo, invalid_start: bool, own_space: bool, same_start: bool) {
    let sp = if own_space { Some(gen::variant_space(rng, &scn.space, Some(&scn.problems[0].starts[0]), 0.01)) } else { None };
    let mut geo = crate::spaces::geo_for(sp.as_ref().unwrap_or(&scn.space)).unwrap();
    geo.set_worlds(&scn.worlds);
    let mut pick = |rng: &mut Xo| -> St {
        for _ in 0..200 {
            if let Some(s) = geo.sample(rng) {
                if geo.valid(0, &s) {
                    return s;
                }
            }
        }
        scn.problems[0].starts[0].clone()
    };
    let (mut s2, t2) = (pick(rng), pick(rng));
    if same_start && geo.in_bounds(&scn.problems[0].starts[0]) {
        s2 = scn.problems[0].starts[0].clone();
    }
    let mut inv = false;
    if invalid_start {
        let balls: Vec<(St, f64)> = scn.worlds[0].obstacles.iter().filter_map(|o| if let Obstacle::Ball { c, r } = o { Some((c.clone(), *r)) } else { None }).collect();
        if !balls.is_empty() {
            let (c, r) = rng.pick(&balls).clone();
            let depth = r * rng.log_range(1e-9, 0.5);
            if let Some(p) = gen::point_at(&*geo, rng, &c, r - depth) {
                if !geo.valid(0, &p) {
                    s2 = p;
                    inv = true;
                }
            }
        }
    }
    let g = scn.problems[0].goal.clone();
    // a third of the time the new query keeps the old goal (the same goal object, another start)
    let same_goal = !own_space && rng.chance(0.33);
    scn.problems.push(ProblemSpec {
        starts: vec![s2],
        goal: if same_goal { g.clone() } else { GoalSpec { target: t2, radius: g.radius, sampler: g.sampler, sampler_seed: g.sampler_seed + 1, comp: None, harness_metric: g.harness_metric, cycle: vec![] } },
        world: 0,
        space: sp,
    });
    scn.params.insert("sealed1".into(), 0.0);
    scn.params.insert("start_invalid1".into(), if inv { 1.0 } else { 0.0 });
}

pub fn solve_budget(iters: u64) -> CallSpec {
    CallSpec::Solve { timeout_ns: 1_000_000_000_000, stalls: vec![Stall { at: Phase::Sample, nth: iters.max(1), ns: STALL_NS }] }
}

pub fn with_setup_histories(scn: &mut Scenario, rng: &mut Xo, max_iters: u64) {
    with_histories(scn, rng, max_iters, &["open", "balls", "shell_door", "zero_weight"], false)
}

/// API histories that precede the final solve; `second` = world families of the second problem,
/// `fault_start` = a replaced PRM problem gets a start marginally inside an obstacle.
pub fn with_histories(scn: &mut Scenario, rng: &mut Xo, max_iters: u64, second: &[&'static str], fault_start: bool) {
    if scn.planner.kind == PlannerKind::PRM && fault_start {
        second_problem_same_world(scn, rng, true);
    } else if scn.planner.kind == PlannerKind::PRM && rng.chance(0.3) {
        // multi-query use: another start (often the same goal object) in the same world
        second_problem_same_world(scn, rng, false);
    } else if scn.planner.kind != PlannerKind::PRM && rng.chance(0.25) {
        // the same world (hence the same checker object), often the same start, another space
        let same_start = rng.chance(0.6);
        second_problem_same_world_v(scn, rng, false, true, same_start);
    } else {
        second_problem(scn, rng, second);
    }
    let l = crate::spaces::geo_for(&scn.space).unwrap().lvs();
    let ext = scn.param("ext").unwrap_or(1.0);
    let pl = scn.planner.clone();
    let it = |rng: &mut Xo| gen::affordable_iters(&pl, l, ext, 1 + rng.below(max_iters));
    let prm = scn.planner.kind == PlannerKind::PRM;
    let calls: Vec<CallSpec> = if prm {
        match rng.below(10) {
            0 => vec![CallSpec::Setup { problem: 0 }, gen::construct_call(it(rng)), solve_budget(1), CallSpec::SetProblem { problem: 1 }, solve_budget(1)],
            1 => vec![CallSpec::Setup { problem: 0 }, gen::construct_call(it(rng)), CallSpec::SetProblem { problem: 1 }, solve_budget(1)],
            2 => vec![CallSpec::Setup { problem: 0 }, gen::construct_call(it(rng)), CallSpec::Setup { problem: 1 }, gen::construct_call(it(rng)), solve_budget(1)],
            3 => vec![CallSpec::Setup { problem: 1 }, gen::construct_call(it(rng)), gen::construct_call(it(rng)), solve_budget(1), solve_budget(1)],
            4 => vec![CallSpec::Setup { problem: 0 }, gen::construct_call(it(rng)), CallSpec::SetProblem { problem: 1 }, CallSpec::SetProblem { problem: 0 }, solve_budget(1)],
            // a solved query, then everything again from setup (the same or the other problem):
            // whatever the first query left behind refers to a roadmap that no longer exists
            6 | 7 => {
                let (a, b) = (it(rng), it(rng));
                let second = if rng.chance(0.5) { 0 } else { 1 };
                let mut v = vec![CallSpec::Setup { problem: 0 }, gen::construct_call(a), solve_budget(1), CallSpec::Setup { problem: second }, gen::construct_call(if rng.chance(0.5) { a } else { b }), solve_budget(1)];
                if rng.chance(0.3) {
                    v.push(CallSpec::SetProblem { problem: 1 - second });
                    v.push(solve_budget(1));
                }
                v
            }
            // a query that times out in the graph search (time limit 0), then the problem is
            // replaced and queried again: whatever the interrupted query left in the roadmap
            8 | 9 => {
                let zero = CallSpec::Solve { timeout_ns: 0, stalls: vec![] };
                let mut v = vec![CallSpec::Setup { problem: 0 }, gen::construct_call(it(rng)), zero.clone(), CallSpec::SetProblem { problem: 1 }];
                if rng.chance(0.4) {
                    v.push(zero.clone());
                    v.push(CallSpec::SetProblem { problem: 0 });
                }
                v.push(solve_budget(1));
                if rng.chance(0.5) {
                    v.push(CallSpec::SetProblem { problem: if rng.chance(0.5) { 0 } else { 1 } });
                    v.push(solve_budget(1));
                }
                v
            }
            _ => vec![CallSpec::Setup { problem: 0 }, gen::construct_call(it(rng)), solve_budget(1)],
        }
    } else {
        let small = |rng: &mut Xo| 1 + rng.below(6);
        match rng.below(6) {
            0 => vec![CallSpec::Setup { problem: 0 }, solve_budget(small(rng)), solve_budget(it(rng))],
            1 => vec![CallSpec::Setup { problem: 0 }, solve_budget(small(rng)), solve_budget(small(rng)), solve_budget(it(rng))],
            2 => vec![CallSpec::Setup { problem: 0 }, CallSpec::Setup { problem: 1 }, solve_budget(it(rng))],
            3 => vec![CallSpec::Setup { problem: 0 }, solve_budget(it(rng)), CallSpec::Setup { problem: 1 }, solve_budget(it(rng))],
            4 => vec![CallSpec::Setup { problem: 1 }, solve_budget(it(rng)), solve_budget(it(rng)), CallSpec::Setup { problem: 0 }, solve_budget(it(rng))],
            _ => vec![CallSpec::Setup { problem: 0 }, solve_budget(it(rng))],
        }
    };
    scn.calls = calls;
    // A PRM whose problem is *replaced* keeps the roadmap it built in the first problem's space:
    // replacing it by a problem over another space is outside what set_problem_definition
    // promises, so such histories use one space throughout.
    if scn.calls.iter().any(|c| matches!(c, CallSpec::SetProblem { .. })) {
        for p in &mut scn.problems {
            p.space = None;
        }
    }
    // histories with more than one solve must not depend on the planner's generator surviving
    for p in &mut scn.problems {
        if p.goal.sampler == GoalSampler::Planner {
            p.goal.sampler = GoalSampler::Harness;
        }
    }
}

/// Ultra-fine resolution: a motion check of several hundred thousand validity queries (resolution
/// fraction 2e-5, one extension as long as the space is wide). A handful per run — any step
/// count capped or cast short of what the resolution demands shows up as a coverage gap.
pub fn ultra_fine(prop: &'static str, seed: u64, index: u64) -> Scenario {
    let mut rng2 = Xo::new(mix(seed, "ultra-fine", index));
    let kind = *rng2.pick(&[PlannerKind::RRT, PlannerKind::RRTStar, PlannerKind::RRTConnect]);
    let o2 = GenOpts { planner: Some(kind), families: vec!["open"], space_kinds: vec!["RV"], max_iters: 2, min_frac: 0.05, goal_sampler: Some(GoalSampler::Fixed), canonical_only: true, ..Default::default() };
    let mut scn = gen::base(&mut rng2, prop, seed, index, &o2);
    if let SpaceSpec::RV { frac, .. } = &mut scn.space {
        *frac = 2e-5;
    }
    // start and goal in opposite corners of the box: the one extension is as long as the space
    if let SpaceSpec::RV { bounds: Some(b), .. } = &scn.space {
        scn.problems[0].starts[0] = b.iter().map(|(lo, hi)| lo + 0.05 * (hi - lo)).collect();
        scn.problems[0].goal.target = b.iter().map(|(lo, hi)| hi - 0.05 * (hi - lo)).collect();
    }
    let ext = scn.param("ext").unwrap_or(1.0);
    scn.planner.max_distance = 10.0 * ext;
    scn.planner.search_radius = 10.0 * ext;
    scn.planner.goal_bias = 1.0;
    scn.clock = ClockSpec { tick_ns: 1000, cost_valid: vec![], cost_sample: vec![], cost_goal: vec![] };
    scn.calls = vec![CallSpec::Setup { problem: 0 }, solve_budget(2)];
    scn.family = "ultra_fine".into();
    scn
}

/// Microscopic resolution: fraction 1e-8 (a tenth of a resolution segment is far below 1e-6 in
/// absolute terms) with steps of ten thousand segments — an absolute floor or cap on what is a
/// relative quantity shows up as a coverage gap, no obstacle needed.
pub fn micro_fine(prop: &'static str, seed: u64, index: u64) -> Scenario {
    let mut scn = ultra_fine(prop, seed, index);
    if let SpaceSpec::RV { frac, .. } = &mut scn.space {
        *frac = 1e-8;
    }
    let l = crate::spaces::geo_for(&scn.space).unwrap().lvs();
    scn.planner.max_distance = 1.0e4 * l;
    scn.planner.search_radius = 1.5e4 * l;
    scn.calls = vec![CallSpec::Setup { problem: 0 }, solve_budget(3)];
    scn.family = "micro_fine".into();
    scn
}

/// Lattice angles: SO(2), samples scripted over multiples of pi/4, step and connection radius
/// longer than half a turn, RRT-Connect or PRM (whose goal-tree edges / links are traversed
/// against the direction they were checked in). End points exactly half a turn apart — where the
/// shortest path is not unique and only the space's interpolation says which way round a
/// motion goes — are then frequent.
pub fn so2_lattice(prop: &'static str, seed: u64, index: u64, kinds: &[PlannerKind]) -> Scenario {
    let mut rng2 = Xo::new(mix(seed, "so2-lattice", index));
    let kind = *rng2.pick(kinds);
    let o2 = GenOpts { planner: Some(kind), families: vec!["open"], space_kinds: vec!["SO2"], max_iters: 4, min_frac: 0.05, goal_sampler: Some(GoalSampler::Fixed), canonical_only: true, library_metric: true, ..Default::default() };
    let mut scn = gen::base(&mut rng2, prop, seed, index, &o2);
    scn.space = SpaceSpec::SO2 { bounds: None, frac: 0.05 };
    let lattice: Vec<f64> = (-4..4).map(|k| k as f64 * std::f64::consts::PI / 4.0).collect();
    let s = *rng2.pick(&lattice);
    let mut t = *rng2.pick(&lattice);
    if t == s {
        t = lattice[(lattice.iter().position(|x| *x == s).unwrap() + 3) % 8];
    }
    scn.problems[0].starts[0] = vec![s];
    scn.problems[0].goal.target = vec![t];
    scn.problems[0].goal.radius = 0.05;
    scn.problems[0].goal.comp = None;
    scn.problems[0].space = None;
    // one forbidden arc between two lattice points, so that paths take several hops
    let c = *rng2.pick(&lattice) + std::f64::consts::PI / 8.0;
    scn.worlds[0].obstacles = vec![Obstacle::Ball { c: vec![c], r: 0.2 }];
    if rng2.chance(0.4) {
        let c2 = *rng2.pick(&lattice) + std::f64::consts::PI / 8.0;
        scn.worlds[0].obstacles.push(Obstacle::Ball { c: vec![c2], r: 0.2 });
    }
    scn.planner.max_distance = 4.0;
    scn.planner.search_radius = 4.0;
    scn.planner.connection_radius = 4.0;
    scn.planner.goal_bias = 0.0;
    scn.params.insert("ext".into(), std::f64::consts::PI);
    let n = rng2.usize_in(5, 14);
    scn.sampling.script = (0..n).map(|_| vec![*rng2.pick(&lattice)]).collect();
    scn.clock = ClockSpec { tick_ns: 1000, cost_valid: vec![], cost_sample: vec![], cost_goal: vec![] };
    scn.calls = if kind == PlannerKind::PRM {
        vec![CallSpec::Setup { problem: 0 }, gen::construct_call(n as u64), CallSpec::Solve { timeout_ns: 1_000_000_000_000, stalls: vec![] }]
    } else {
        vec![CallSpec::Setup { problem: 0 }, solve_budget(n as u64)]
    };
    scn.family = "so2_lattice".into();
    scn
}

/// SE(2) lattice: positions on a 4 x 4 grid, headings multiples of pi/2, nothing steered (the step
/// and the radii exceed the space), a forbidden heading band: RRT* trees with many rewirings
/// between nodes whose headings are exactly half a turn apart.
pub fn se2_lattice(prop: &'static str, seed: u64, index: u64, kinds: &[PlannerKind]) -> Scenario {
    use std::f64::consts::PI;
    let mut rng2 = Xo::new(mix(seed, "se2-lattice", index));
    let kind = *rng2.pick(kinds);
    let o2 = GenOpts { planner: Some(kind), families: vec!["open"], space_kinds: vec!["SE2"], max_iters: 4, min_frac: 0.05, goal_sampler: Some(GoalSampler::Fixed), canonical_only: true, library_metric: true, ..Default::default() };
    let mut scn = gen::base(&mut rng2, prop, seed, index, &o2);
    scn.space = SpaceSpec::SE2 { weight: *rng2.pick(&[0.5, 1.0]), bounds: vec![(0.0, 4.0), (0.0, 4.0), (-PI, PI)], frac_t: 0.05, frac_r: 0.05, native: true };
    let pt = |rng: &mut Xo| -> St { vec![0.5 + rng.below(4) as f64, 0.5 + rng.below(4) as f64, (rng.below(4) as f64 - 2.0) * PI / 2.0] };
    let s = pt(&mut rng2);
    let mut t = pt(&mut rng2);
    if t == s {
        t[0] = if s[0] < 2.0 { s[0] + 2.0 } else { s[0] - 2.0 };
    }
    scn.problems[0].starts = vec![s];
    scn.problems[0].goal.target = t;
    scn.problems[0].goal.radius = 0.05;
    scn.problems[0].goal.comp = None;
    scn.problems[0].space = None;
    // forbidden heading band between two lattice headings (a cylinder over the heading component)
    let c = (rng2.below(4) as f64 - 2.0) * PI / 2.0 + PI / 4.0;
    scn.worlds[0].obstacles = vec![Obstacle::CompBall { comp: 1, c: vec![c], r: 0.3 }];
    scn.planner.max_distance = 20.0;
    scn.planner.search_radius = 20.0;
    scn.planner.connection_radius = 20.0;
    scn.planner.goal_bias = 0.0;
    scn.params.insert("ext".into(), 6.0);
    let n = rng2.usize_in(6, 16);
    scn.sampling.script = (0..n).map(|_| pt(&mut rng2)).collect();
    scn.clock = ClockSpec { tick_ns: 1000, cost_valid: vec![], cost_sample: vec![], cost_goal: vec![] };
    scn.calls = if kind == PlannerKind::PRM {
        vec![CallSpec::Setup { problem: 0 }, gen::construct_call(n as u64), CallSpec::Solve { timeout_ns: 1_000_000_000_000, stalls: vec![] }]
    } else {
        vec![CallSpec::Setup { problem: 0 }, solve_budget(n as u64)]
    };
    scn.family = "se2_lattice".into();
    scn
}

/// Harvest history: the goal region is the whole space, so every solve returns the branch of the
/// node it has just added; a long history of solves on the kept tree puts (nearly) every tree
/// edge — extension, choose-parent and REWIRED edges with descendants — on some returned path.
fn harvest(prop: &'static str, seed: u64, index: u64, tier: Tier, families: &[&'static str], kinds: &[&'static str], angular: bool) -> Scenario {
    let mut rng2 = Xo::new(mix(seed, "harvest", index));
    let kind = *rng2.pick(&[PlannerKind::RRTStar, PlannerKind::RRTStar, PlannerKind::RRTStar, PlannerKind::RRT]);
    let o2 = GenOpts { planner: Some(kind), families: families.to_vec(), space_kinds: kinds.to_vec(), max_iters: 10, min_frac: 0.02, query_budget: 1.5e6, angular_bias: angular, ..Default::default() };
    let mut scn = gen::base(&mut rng2, prop, seed, index, &o2);
    let ext = scn.param("ext").unwrap_or(1.0);
    scn.planner.max_distance = ext * rng2.range(0.05, 0.2);
    scn.planner.search_radius = scn.planner.max_distance * rng2.range(1.5, 4.0);
    scn.planner.goal_bias = 0.0;
    scn.problems[0].goal.radius = 100.0 * ext;
    scn.problems[0].goal.comp = None;
    scn.problems[0].goal.sampler = GoalSampler::Fixed;
    let l = crate::spaces::geo_for(&scn.space).unwrap().lvs();
    let want = if tier == Tier::Thorough { 300 } else { 120 };
    let n = gen::affordable_iters_b(&scn.planner, l, ext, want, if prop == "C03" { 6.0e5 } else { 1.0e6 });
    scn.calls = vec![CallSpec::Setup { problem: 0 }];
    for _ in 0..n {
        // a third of the solves have their deadline pass INSIDE an iteration (during some
        // validity query of the extension, choose-parent or rewire phase): the iteration must
        // still be completed or not have happened
        if rng2.chance(0.33) {
            scn.calls.push(CallSpec::Solve { timeout_ns: 1_000_000_000_000, stalls: vec![Stall { at: Phase::Valid, nth: 1 + rng2.below(40), ns: STALL_NS }, Stall { at: Phase::Sample, nth: 8, ns: STALL_NS }] });
        } else {
            scn.calls.push(solve_budget(8));
        }
    }
    scn.params.insert("harvest".into(), 1.0);
    scn.family = format!("harvest/{}", scn.family);
    scn
}

/// A scenario in which the user's validity checker unwinds at its k-th call inside a solve and
/// the caller goes on using the planner (see PathProp::generate). Independent of the planner's
/// generator by construction: scripted uniform samples, goal bias exactly 0 or 1.
pub fn panic_resume(prop: &'static str, seed: u64, index: u64, mut o2: GenOpts) -> Scenario {
    let mut rng2 = Xo::new(mix(seed, "panic-resume", index));
    let kind = *rng2.pick(&[PlannerKind::RRT, PlannerKind::RRT, PlannerKind::RRTStar, PlannerKind::RRTConnect]);
    o2.planner = Some(kind);
    o2.max_iters = 60;
    o2.query_budget = 3e5;
    o2.goal_sampler = Some(GoalSampler::Fixed);
    let mut scn = gen::base(&mut rng2, prop, seed, index, &o2);
    let ext = scn.param("ext").unwrap_or(1.0);
    let geo = crate::spaces::geo_for(&scn.space).unwrap();
    let anchors = vec![scn.problems[0].starts[0].clone(), scn.problems[0].goal.target.clone()];
    let asz = rng2.usize_in(5, 10);
    let alpha = crate::treechecks::alphabet(&*geo, &mut rng2, &anchors, asz);
    let alpha: Vec<St> = alpha.into_iter().filter(|s| crate::spaces::bounds_excess(&scn.space, s).0 == 0.0).collect();
    let budgets: Vec<u64> = (0..rng2.usize_in(2, 3)).map(|_| 3 + rng2.below(25)).collect();
    let total: u64 = budgets.iter().sum::<u64>() + 8;
    let mut script = vec![];
    for _ in 0..total {
        if rng2.chance(0.7) && !alpha.is_empty() {
            script.push(rng2.pick(&alpha).clone());
        } else if let Some(q) = geo.sample(&mut rng2) {
            script.push(q);
        } else {
            script.push(anchors[0].clone());
        }
    }
    scn.sampling.script = script;
    scn.planner.goal_bias = *rng2.pick(&[0.0, 0.0, 1.0]);
    if rng2.chance(0.6) {
        scn.planner.max_distance = ext * rng2.range(0.05, 0.6);
    }
    scn.planner.search_radius = scn.planner.max_distance * rng2.range(1.0, 5.0);
    scn.problems[0].goal.comp = None;
    scn.calls = vec![CallSpec::Setup { problem: 0 }];
    for b in &budgets {
        scn.calls.push(solve_budget(*b));
    }
    scn.faults = vec![FaultSpec::ValidityPanicAt { at_call: 1 + (rng2.log_range(1.0, 600.0) as u64) }];
    scn.params.insert("panic_resume".into(), 1.0);
    scn.params.remove("perturb");
    scn.family = format!("checker_unwinds_then_resume/{}", scn.family);
    scn
}

impl PathProp {
    fn opts(&self, rng: &mut Xo, tier: Tier) -> GenOpts {
        let big = tier == Tier::Thorough;
        let mut o = GenOpts { max_iters: if big { 400 } else { 200 }, min_frac: 0.002, ..Default::default() };
        match self.id {
            "C01" => {
                o.families = vec!["start_in_obstacle", "start_in_obstacle", "goal_overlap", "goal_overlap", "goal_invalid", "balls", "shell_door", "thin_wall", "open", "zero_weight", "zero_weight", "workspace", "workspace"];
            }
            "C02" => {
                o.families = vec!["open", "balls", "shell_door", "zero_weight", "workspace"];
                o.min_frac = 0.01;
            }
            "C03" => {
                o.families = vec!["thin_wall", "thin_wall", "shell_door", "shell_door", "balls", "goal_overlap", "slivers", "slivers", "zero_weight"];
                o.max_iters = if big { 300 } else { 150 };
            }
            "C04" => {
                o.families = vec!["open", "open", "balls", "zero_weight"];
                o.angular_bias = rng.chance(0.8);
                if o.angular_bias {
                    o.space_kinds = vec!["SO2", "SO2", "SO3", "SE2", "SE3", "Compound"];
                }
                o.min_frac = 0.01;
            }
            "C05" => {
                o.families = vec!["open", "open", "balls", "shell_door", "zero_weight"];
                o.min_frac = 0.01;
            }
            "C06" => {
                o.families = vec!["sealed_goal", "sealed_goal", "sealed_start", "goal_invalid", "thin_wall", "thin_wall", "balls", "open", "shell_door", "zero_weight", "sealed_by_bounds", "workspace"];
                o.max_iters = if big { 300 } else { 120 };
            }
            _ => {}
        }
        o
    }
}

impl Check for PathProp {
    fn id(&self) -> &'static str {
        self.id
    }
    fn rule(&self) -> String {
        let common = "scenario i is generated from mix(VERIF_SEED, property, i): one of six space kinds (random bounds, weights, resolution fractions), a world family, a problem, a planner with random parameters and seed, a virtual-clock cost pattern and a deadline placement; swarm variations per scenario: obstacles / goal measured by the library's or the harness's own metric, kept or freshly built problem-definition objects, a second listed start state, public parameter fields assigned after setup, pure-translation and already-there tasks, degenerate parameters (step or radius 0, single-state goals, thin boxes, up to 8 dimensions, compounds without any weight), harvest histories (goal = whole space, many solves on the kept tree) and PRM harvest (one replaced problem per milestone), scripted lattice / dyadic / alphabet samples; distinct = distinct scenario hash; ";
        let nt = match self.id {
            "C01" => "non-trivial = a solve call returned a path, or the checker rejects the start state (the invalid-start clause is exercised)",
            "C02" => "non-trivial = a solve call returned a path (so the endpoint clauses were evaluated), in a history with the generated setup / re-setup / problem replacement / repeated-solve calls",
            "C03" => "non-trivial = a returned path contains at least one segment longer than the resolution L (so the coverage oracle had a gap to look for); a sixth of the scenarios are harvest histories (the goal region is the whole space, up to 120 / 300 solves on the kept RRT / RRT* tree, each returning the branch of the node just added, so nearly every tree edge incl. rewired ones ends up on a returned path)",
            "C04" => "non-trivial = a path was returned and the premise held (start and every goal sample inside the bounds)",
            "C05" => "non-trivial = a path with at least two states was returned",
            "C06" => "non-trivial = the time limit passed during the call (a deadline event was located in the history), or the world is sealed and the call returned",
            _ => "",
        };
        format!("{common}{nt}")
    }
    fn default_runs(&self, tier: Tier) -> u64 {
        let q = match self.id {
            "C03" => 60_000,
            _ => 100_000,
        };
        match tier {
            Tier::Quick => q,
            Tier::Thorough => q * 20,
        }
    }
    fn assumptions(&self) -> Vec<String> {
        vec![
            "the simulated user's callbacks are deterministic pure functions of the state".into(),
            "worlds are in general position: no obstacle boundary passes between a validated state and its 1-ulp neighbour".into(),
            "sampling, not enumeration: a clean batch is evidence, not proof".into(),
        ]
    }
    fn required_probes(&self) -> Vec<&'static str> {
        match self.id {
            "C01" => vec!["path_returned", "start_invalid"],
            "C02" => vec!["path_returned", "second_solve", "resetup", "connect_direct", "connect_via_start_growth", "connect_via_goal_growth"],
            "C06" => vec!["sealed_runs", "deadline_in_sampler", "deadline_mid_motion_check", "deadline_in_goal_test", "deadline_at_clock_read", "deadline_in_bfs", "zero_timeout"],
            _ => vec!["path_returned"],
        }
    }

    fn generate(&self, seed: u64, index: u64, tier: Tier) -> Scenario {
        let mut rng = Xo::new(mix(seed, self.id, index));
        let o = self.opts(&mut rng, tier);
        let mut o = o;
        let frac_probe = self.id == "C06" && index < 24;
        if frac_probe {
            // explicit probe scenarios (a handful per run, not part of the random mix): the
            // resolution setters are given a non-positive fraction
            o.planner = Some(PlannerKind::ALL[(index % 4) as usize]);
            o.space_kinds = vec![["RV", "SO2", "SO3"][((index / 4) % 3) as usize]];
            o.families = vec!["open"];
            o.max_iters = 5;
        }
        let mut scn = gen::base(&mut rng, self.id, seed, index, &o);
        if frac_probe {
            let f = [0.0, -1.0][((index / 12) % 2) as usize];
            match &mut scn.space {
                SpaceSpec::RV { frac, .. } | SpaceSpec::SO2 { frac, .. } | SpaceSpec::SO3 { frac, .. } => *frac = f,
                _ => {}
            }
            scn.family = "nonpositive_resolution_fraction".into();
            scn.planner.max_distance = scn.param("ext").unwrap_or(1.0) * 0.2;
            scn.planner.connection_radius = scn.param("ext").unwrap_or(1.0) * 0.5;
            return scn;
        }
        // a share of the scenarios deliver samples from a small alphabet of awkward states
        // (duplicates, seam and antipodal states, q / -q) before falling back to the sampler
        if index % 7 == 6 {
            let geo = crate::spaces::geo_for(&scn.space).unwrap();
            let anchors = vec![scn.problems[0].starts[0].clone(), scn.problems[0].goal.target.clone()];
            let asz = rng.usize_in(3, 8);
            let alpha = crate::treechecks::alphabet(&*geo, &mut rng, &anchors, asz);
            // the script stands in for sample_uniform, whose results lie inside the bounds
            let alpha: Vec<St> = alpha.into_iter().filter(|s| crate::spaces::bounds_excess(&scn.space, s).0 == 0.0).collect();
            if !alpha.is_empty() {
                let n = rng.usize_in(4, 40);
                scn.sampling.script = (0..n).map(|_| rng.pick(&alpha).clone()).collect();
                scn.family = format!("{}+alphabet", scn.family);
            }
        }
        if self.id == "C03" && index % 2003 == 11 {
            return ultra_fine(self.id, seed, index);
        }
        if self.id == "C03" && index % 50 == 23 {
            return so2_lattice(self.id, seed, index, &[PlannerKind::RRTConnect, PlannerKind::PRM]);
        }
        if (matches!(self.id, "C01" | "C04" | "C05") && index % 16 == 9) || (self.id == "C03" && index % 64 == 9) {
            // PRM harvest (see evaluate): setup, construct, solve; the queries for every
            // milestone are added from the first run's roadmap
            let mut rng2 = Xo::new(mix(seed, "prm-harvest", index));
            let mut o2 = self.opts(&mut rng2, tier);
            o2.planner = Some(PlannerKind::PRM);
            o2.max_iters = if self.id == "C03" { 40 } else if tier == Tier::Thorough { 200 } else { 80 };
            o2.query_budget = if self.id == "C03" { 5e4 } else { 2e5 };
            o2.goal_sampler = Some(GoalSampler::Fixed);
            let mut scn = gen::base(&mut rng2, self.id, seed, index, &o2);
            let ext = scn.param("ext").unwrap_or(1.0);
            scn.planner.connection_radius = ext * rng2.range(0.15, 0.5);
            scn.problems[0].goal.comp = None;
            scn.params.insert("prm_harvest".into(), 1.0);
            scn.params.remove("fresh_objects");
            scn.family = format!("prm_harvest/{}", scn.family);
            return scn;
        }
        if matches!(self.id, "C01" | "C02" | "C03" | "C04" | "C05" | "C06") && index % 16 == 7 {
            // The user's validity checker UNWINDS at its k-th call inside a solve; the caller
            // catches it and goes on using the planner (solve again, no setup). Whatever the
            // interrupted iteration left in the tree, later paths must still have the property.
            // The interrupted call had taken the seeded generator with it, so the run is made
            // independent of it: every uniform sample comes from a script, the goal sampler has
            // its own stream, and the goal bias is exactly 0 or 1.
            let mut rng2 = Xo::new(mix(seed, "panic-resume-opts", index));
            let o2 = self.opts(&mut rng2, tier);
            return panic_resume(self.id, seed, index, o2);
        }
        if self.id == "C01" && index % 40 == 17 {
            // dyadic point-obstacle world (see treechecks::fixture): a scripted sample sequence
            // over a dyadic alphabet whose last state is an invalid POINT lying inside the goal
            // region — a motion check that does not look at exactly the state that gets stored
            // returns a path ending in it
            let m = index / 40;
            let kind = PlannerKind::ALL[(m % 3) as usize]; // RRT, RRT-Connect, RRT*
            let (mut scn, alpha) = crate::treechecks::fixture("C01", seed, 12 * m, kind, 5);
            scn.index = index;
            let mut rng2 = Xo::new(mix(seed, "C01-dyadic", index));
            let bad = alpha[alpha.len() - 1].clone();
            // the goal target: a valid dyadic neighbour of the invalid point
            let mut t = bad.clone();
            t[0] = if bad[0] < 7.0 { bad[0] + 0.0625 } else { bad[0] - 0.0625 };
            scn.problems[0].goal.target = t;
            scn.problems[0].goal.radius = 0.5;
            scn.problems[0].goal.comp = None;
            scn.problems[0].goal.sampler = GoalSampler::Fixed;
            let n = rng2.usize_in(4, 12);
            scn.sampling.script = (0..n).map(|_| rng2.pick(&alpha).clone()).collect();
            scn.planner.goal_bias = 0.0;
            scn.calls = vec![CallSpec::Setup { problem: 0 }, solve_budget(n as u64)];
            scn.family = "dyadic_point_obstacle".into();
            return scn;
        }
        match self.id {
            // the cheap path oracles get harvest histories too (every tree edge / node of RRT and
            // RRT* ends up on a returned path)
            "C01" if index % 16 == 5 => {
                scn = harvest(self.id, seed, index, tier, &["balls", "slivers", "thin_wall", "zero_weight", "workspace"], &[], false);
            }
            "C04" if index % 16 == 5 => {
                scn = harvest(self.id, seed, index, tier, &["open", "balls"], &["SO2", "SO2", "SO3", "SE2", "SE3", "Compound"], true);
            }
            "C05" if index % 16 == 5 => {
                scn = harvest(self.id, seed, index, tier, &["open", "balls", "slivers", "zero_weight"], &[], false);
            }
            "C01" if index % 4 == 3 => {
                // histories: re-setup with / replacement by a problem whose start is marginally
                // inside an obstacle or whose goal region overlaps one
                with_histories(&mut scn, &mut rng, o.max_iters.min(120), &["start_in_obstacle", "start_in_obstacle", "goal_overlap", "goal_invalid", "balls"], true);
            }
            "C01" => {
                if rng.chance(0.25) {
                    // stepwise: interrupted and resumed
                    let its = 1 + rng.below(o.max_iters);
                    let prm = scn.planner.kind == PlannerKind::PRM;
                    if !prm {
                        scn.calls = vec![CallSpec::Setup { problem: 0 }, solve_budget(1 + rng.below(5)), solve_budget(its)];
                        if scn.problems[0].goal.sampler == GoalSampler::Planner {
                            scn.problems[0].goal.sampler = GoalSampler::Harness;
                        }
                    }
                }
            }
            "C02" => {
                with_setup_histories(&mut scn, &mut rng, o.max_iters);
                // An angular goal region that reaches across an excluded arc: the space bounds an
                // SO(2) component to a sub-interval, the goal target sits just inside one end of
                // it and the region extends over the excluded arc and beyond; the harness sampler
                // hands out goal states anywhere in the region, most of them outside the bounds
                // (whatever a planner does to such a sample — clamping sends it to the NEAREST
                // end, possibly the far one — the path has to end in the goal region).
                let mut rng3 = Xo::new(mix(seed, "C02-angular-goal-over-gap", index));
                if rng3.chance(0.12) {
                    let lay = crate::spaces::layout(&scn.space);
                    let ws = crate::spaces::comp_weights(&scn.space);
                    let found: Option<(usize, f64, f64, f64)> = match &scn.space {
                        SpaceSpec::SO2 { bounds: Some((lo, hi)), .. } => Some((0, *lo, *hi, 1.0)),
                        SpaceSpec::SE2 { bounds, weight, .. } => Some((2, bounds[2].0, bounds[2].1, *weight)),
                        SpaceSpec::Compound { parts, .. } => parts.iter().enumerate().find_map(|(k, p)| match p {
                            SpaceSpec::SO2 { bounds: Some((lo, hi)), .. } => Some((crate::spaces::comp_offset(&lay, k), *lo, *hi, ws[k])),
                            _ => None,
                        }),
                        _ => None,
                    };
                    if let Some((off, lo, hi, w)) = found {
                        let gap = 2.0 * std::f64::consts::PI - (hi - lo);
                        if gap > 1e-3 && gap < 1.5 && w > 0.0 && scn.problems[0].space.is_none() {
                            let inset = gap * rng3.range(0.05, 0.5);
                            let half = gap * rng3.range(0.7, 1.6) + inset;
                            let mut geo = crate::spaces::geo_for(&scn.space).unwrap();
                            geo.set_worlds(&scn.worlds);
                            let mut t = scn.problems[0].goal.target.clone();
                            t[off] = if rng3.chance(0.5) { hi - inset } else { lo + inset };
                            if geo.valid(scn.problems[0].world, &t) && geo.in_bounds(&t) {
                                let g = &mut scn.problems[0].goal;
                                g.target = t;
                                g.radius = g.radius.max(w * half);
                                g.comp = None;
                                g.sampler = GoalSampler::Harness;
                                g.cycle = vec![];
                                scn.params.insert("angular_goal_over_gap".into(), 1.0);
                            }
                        }
                    }
                }
                // start rotations written with seven decimals (|q|^2 off 1 by about 1e-7): the
                // constructors do not normalise, and the path has to begin with the start state
                // as given, bit for bit — not with a tidied copy of it
                let mut rng2 = Xo::new(mix(seed, "C02-decimal-quaternion", index));
                if crate::spaces::has_so3(&scn.space) && rng2.chance(0.3) {
                    let lay = crate::spaces::layout(&scn.space);
                    let mut geo = crate::spaces::geo_for(&scn.space).unwrap();
                    geo.set_worlds(&scn.worlds);
                    for pi in 0..scn.problems.len() {
                        if scn.problems[pi].space.is_some() {
                            continue;
                        }
                        let mut s = scn.problems[pi].starts[0].clone();
                        for (k, c) in lay.iter().enumerate() {
                            if matches!(c, crate::spaces::Comp::SO3) {
                                let off = crate::spaces::comp_offset(&lay, k);
                                for x in &mut s[off..off + 4] {
                                    *x = (*x * 1e7).round() / 1e7;
                                }
                            }
                        }
                        let w = scn.problems[pi].world;
                        if geo.valid(w, &scn.problems[pi].starts[0]) && geo.valid(w, &s) && geo.in_bounds(&s) {
                            scn.problems[pi].starts[0] = s;
                            scn.params.insert("decimal_start_quaternion".into(), 1.0);
                        }
                    }
                }
            }
            "C03" if index % 6 == 5 => {
                // re-setup histories: the second problem may come with a finer or coarser space
                with_histories(&mut scn, &mut rng, o.max_iters.min(100), &["thin_wall", "thin_wall", "slivers", "slivers", "shell_door", "balls"], false);
            }
            "C04" if index % 24 == 1 => {
                // PRM multi-query: the first query's start lies marginally OUTSIDE a box bound
                // (valid for the checker; that query's premise is false, its answer is not
                // judged). The second query is entirely within the bounds and its goal region
                // contains the first start: whatever the first query left in the roadmap must
                // not come back on the second path.
                let mut rng2 = Xo::new(mix(seed, "C04-prm-oob-start", index));
                let mut o2 = self.opts(&mut rng2, tier);
                o2.planner = Some(PlannerKind::PRM);
                o2.space_kinds = vec!["RV", "RV", "SE2", "SE3"];
                o2.families = vec!["open", "balls"];
                o2.max_iters = 120;
                o2.query_budget = 2e5;
                o2.goal_sampler = Some(GoalSampler::Fixed);
                scn = gen::base(&mut rng2, self.id, seed, index, &o2);
                let b: Vec<(f64, f64)> = match &scn.space {
                    SpaceSpec::RV { bounds: Some(b), .. } => b.clone(),
                    SpaceSpec::SE2 { bounds, .. } => bounds[..2].to_vec(),
                    SpaceSpec::SE3 { bounds, .. } => bounds.clone(),
                    _ => vec![],
                };
                let mut geo = crate::spaces::geo_for(&scn.space).unwrap();
                geo.set_worlds(&scn.worlds);
                if !b.is_empty() {
                    let ext = scn.param("ext").unwrap_or(1.0);
                    let inb = scn.problems[0].starts[0].clone();
                    let i = rng2.below(b.len() as u64) as usize;
                    let eps = (b[i].1 - b[i].0) * rng2.log_range(1e-6, 3e-3);
                    let up = rng2.chance(0.5);
                    let (mut s0, mut t1) = (inb.clone(), inb.clone());
                    s0[i] = if up { b[i].1 + eps } else { b[i].0 - eps };
                    t1[i] = if up { b[i].1 - eps } else { b[i].0 + eps };
                    if geo.valid(0, &s0) && geo.valid(0, &t1) && geo.valid(0, &inb) {
                        let mut start1 = inb.clone();
                        for _ in 0..50 {
                            if let Some(c) = geo.sample(&mut rng2) {
                                if geo.valid(0, &c) {
                                    start1 = c;
                                    break;
                                }
                            }
                        }
                        let mut g1 = scn.problems[0].goal.clone();
                        g1.target = t1;
                        g1.radius = g1.radius.max(ext * rng2.range(0.03, 0.15));
                        g1.comp = None;
                        g1.cycle = vec![];
                        g1.sampler = GoalSampler::Fixed;
                        scn.problems[0].starts[0] = s0;
                        scn.problems.push(ProblemSpec { starts: vec![start1], goal: g1, world: 0, space: None });
                        let n = match &scn.calls[1] {
                            CallSpec::Construct { stalls } => stalls[0].nth,
                            _ => 40,
                        };
                        scn.calls = vec![CallSpec::Setup { problem: 0 }, gen::construct_call(n), solve_budget(1), CallSpec::SetProblem { problem: 1 }, solve_budget(1)];
                        scn.planner.connection_radius = ext * rng2.range(0.2, 0.6);
                        scn.params.insert("sealed1".into(), 0.0);
                        scn.params.insert("start_invalid1".into(), 0.0);
                        scn.family = format!("prm_first_query_start_out_of_bounds/{}", scn.family);
                    }
                }
            }
            "C04" if index % 24 == 13 => {
                // PRM: setup(P0), set_problem_definition(P1 over its own, tighter space), THEN the
                // roadmap is constructed: it must be sampled in the installed problem's space
                let mut rng2 = Xo::new(mix(seed, "C04-prm-space", index));
                let mut o2 = self.opts(&mut rng2, tier);
                o2.planner = Some(PlannerKind::PRM);
                o2.max_iters = 80;
                o2.query_budget = 2e5;
                scn = gen::base(&mut rng2, self.id, seed, index, &o2);
                let same_start = rng2.chance(0.5);
                second_problem_same_world_v(&mut scn, &mut rng2, false, true, same_start);
                let n = match &scn.calls[1] {
                    CallSpec::Construct { stalls } => stalls[0].nth,
                    _ => 20,
                };
                scn.calls = vec![CallSpec::Setup { problem: 0 }, CallSpec::SetProblem { problem: 1 }, gen::construct_call(n), solve_budget(1)];
                let ext = scn.param("ext").unwrap_or(1.0);
                scn.planner.connection_radius = ext * rng2.range(0.2, 0.6);
                scn.problems[1].goal.radius = scn.problems[1].goal.radius.max(0.15 * ext);
                scn.family = format!("prm_space_replaced_before_construction/{}", scn.family);
            }
            "C04" if index % 3 == 2 => {
                // re-setup histories: tighter bounds on the second problem
                if scn.planner.kind != PlannerKind::PRM && rng.chance(0.6) {
                    // the same world, checker object and (mostly) start; only the space is new
                    let same_start = rng.chance(0.7);
                    second_problem_same_world_v(&mut scn, &mut rng, false, true, same_start);
                    let l = crate::spaces::geo_for(&scn.space).unwrap().lvs();
                    let ext = scn.param("ext").unwrap_or(1.0);
                    let (a, b) = (gen::affordable_iters(&scn.planner, l, ext, 1 + rng.below(o.max_iters)), gen::affordable_iters(&scn.planner, l, ext, 1 + rng.below(o.max_iters)));
                    scn.calls = vec![CallSpec::Setup { problem: 0 }, solve_budget(a), CallSpec::Setup { problem: 1 }, solve_budget(b)];
                    for p in &mut scn.problems {
                        if p.goal.sampler == GoalSampler::Planner {
                            p.goal.sampler = GoalSampler::Harness;
                        }
                    }
                } else {
                    with_histories(&mut scn, &mut rng, o.max_iters.min(120), &["open", "open", "balls"], false);
                }
            }
            "C05" if index % 40 == 3 => {
                // RRT-Connect: setup(P0), solve, setup(P1) whose goal sampler fails on the draw
                // that setup makes (today: a panic, which the caller catches), solve again. P1
                // lives in a space with other metric weights: whatever tree the planner then
                // works on must not mix edges measured in the old metric into a path for P1.
                let mut rng2 = Xo::new(mix(seed, "C05-setup-fault", index));
                let mut o2 = self.opts(&mut rng2, tier);
                o2.planner = Some(PlannerKind::RRTConnect);
                o2.space_kinds = vec!["SE2", "SE3", "Compound"];
                o2.families = vec!["open", "balls"];
                o2.max_iters = 80;
                o2.goal_sampler = Some(GoalSampler::Harness);
                scn = gen::base(&mut rng2, self.id, seed, index, &o2);
                second_problem_same_world_v(&mut scn, &mut rng2, false, true, true);
                let k = *rng2.pick(&[0.1, 0.2, 5.0, 10.0]);
                if let Some(sp) = &mut scn.problems[1].space {
                    match sp {
                        SpaceSpec::SE2 { weight, .. } | SpaceSpec::SE3 { weight, .. } => *weight *= k,
                        SpaceSpec::Compound { weights, .. } => {
                            let i = rng2.below(weights.len() as u64) as usize;
                            weights[i] *= k;
                        }
                        _ => {}
                    }
                }
                let l = crate::spaces::geo_for(&scn.space).unwrap().lvs();
                let ext = scn.param("ext").unwrap_or(1.0);
                let (a, b) = (gen::affordable_iters(&scn.planner, l, ext, 20 + rng2.below(60)), gen::affordable_iters(&scn.planner, l, ext, 20 + rng2.below(60)));
                scn.calls = vec![CallSpec::Setup { problem: 0 }, solve_budget(a), CallSpec::Setup { problem: 1 }, solve_budget(b)];
                scn.params.insert("goal_sampler_fails_in_second_setup".into(), 1.0);
                scn.params.insert("resume_after_setup_panic".into(), 1.0);
                scn.family = format!("setup_fault_then_solve/{}", scn.family);
            }
            "C05" if index % 5 == 4 => {
                with_histories(&mut scn, &mut rng, o.max_iters.min(120), &["open", "balls", "shell_door"], false);
            }
            "C03" if index % 6 == 3 => {
                scn = harvest(self.id, seed, index, tier, &["slivers", "slivers", "balls", "thin_wall"], &["RV", "RV", "RV", "SE2", "SO2", "Compound", "SE3"], false);
            }
            "C03" if index % 6 == 4 => {
                // RRT* in clutter: many choose-parent and rewiring decisions per run with some
                // candidates blocked, and a goal that is reached, so that rewired and re-parented
                // edges end up on returned paths
                let mut rng2 = Xo::new(mix(seed, "C03-clutter", index));
                let o2 = GenOpts { planner: Some(PlannerKind::RRTStar), families: vec!["slivers", "slivers", "balls", "thin_wall"], space_kinds: vec!["RV", "RV", "SE2", "Compound", "SO2", "SE3"], max_iters: if tier == Tier::Thorough { 500 } else { 300 }, min_frac: 0.01, query_budget: 1.5e6, ..Default::default() };
                scn = gen::base(&mut rng2, self.id, seed, index, &o2);
                let ext = scn.param("ext").unwrap_or(1.0);
                scn.planner.max_distance = ext * rng2.range(0.04, 0.15);
                scn.planner.search_radius = scn.planner.max_distance * rng2.range(1.5, 5.0);
                scn.planner.goal_bias = 0.05;
                scn.problems[0].goal.radius = scn.problems[0].goal.radius.max(ext * rng2.range(0.05, 0.15));
                let l = crate::spaces::geo_for(&scn.space).unwrap().lvs();
                let n = gen::affordable_iters_b(&scn.planner, l, ext, 100 + rng2.below(o2.max_iters), 1.5e6);
                scn.calls = vec![CallSpec::Setup { problem: 0 }, solve_budget(n)];
                scn.family = format!("rrtstar_clutter/{}", scn.family);
            }
            "C03" => {
                // long edges: RRT* radii >> step, PRM radii spanning walls
                if rng.chance(0.5) {
                    scn.planner.search_radius = scn.planner.max_distance * rng.range(2.0, 8.0);
                }
                // interrupted and resumed (every edge kind must survive a second solve on the
                // kept trees); goal regions wide enough to span obstacles, sampled afresh
                if scn.planner.kind != PlannerKind::PRM && rng.chance(0.35) {
                    let l = crate::spaces::geo_for(&scn.space).unwrap().lvs();
                    let ext = scn.param("ext").unwrap_or(1.0);
                    let n = gen::affordable_iters(&scn.planner, l, ext, 1 + rng.below(o.max_iters));
                    scn.calls = vec![CallSpec::Setup { problem: 0 }, solve_budget(1 + rng.below(12)), solve_budget(n)];
                    if rng.chance(0.5) {
                        scn.calls.insert(2, solve_budget(1 + rng.below(12)));
                    }
                    scn.problems[0].goal.sampler = GoalSampler::Harness;
                    scn.problems[0].goal.radius *= rng.range(1.0, 3.0);
                }
            }
            "C06" if index % 1009 == 11 => {
                // A legal but very fine resolution (fraction 2e-5) and a full-width wall three
                // resolution segments thick between start and goal (sealed): the one long
                // extension toward the goal takes several hundred thousand validity queries
                // and must be rejected; a step count capped or floored short of that steps
                // over the wall and "reaches" the sealed goal.
                let mut s2 = ultra_fine(self.id, seed, index);
                if let SpaceSpec::RV { bounds: Some(b), .. } = &s2.space {
                    let l = crate::spaces::geo_for(&s2.space).unwrap().lvs();
                    let mid = 0.5 * (b[0].0 + b[0].1);
                    s2.worlds[0].obstacles = vec![Obstacle::Wall { axis: 0, lo: mid, hi: mid + 3.0 * l, gap: None }];
                    s2.params.insert("sealed".into(), 1.0);
                    s2.params.insert("start_invalid".into(), 0.0);
                    s2.family = "sealed_goal".into();
                    s2.params.insert("fine_resolution_wall".into(), 1.0);
                    scn = s2;
                }
            }
            "C06" => {
                // time limits from 0 upward, second solves, PRM construction deadlines
                let prm = scn.planner.kind == PlannerKind::PRM;
                if prm {
                    // keep the (affordable) sample budget the base generator chose
                    let n = match &scn.calls[1] {
                        CallSpec::Construct { stalls } => stalls.first().map(|s| s.nth).unwrap_or(1),
                        _ => 1,
                    };
                    match rng.below(4) {
                        0 => {
                            // construction deadline decided by ticks alone
                            scn.clock.cost_valid.clear();
                            scn.clock.cost_sample.clear();
                            scn.planner.prm_timeout_s = (scn.clock.tick_ns.saturating_mul(n)) as f64 * 1e-9;
                            scn.calls[1] = CallSpec::Construct { stalls: vec![Stall { at: Phase::Sample, nth: n + 200, ns: STALL_NS }] };
                        }
                        1 => {
                            scn.planner.prm_timeout_s = 0.0;
                            scn.calls[1] = CallSpec::Construct { stalls: vec![Stall { at: Phase::Sample, nth: 50, ns: STALL_NS }] };
                        }
                        2 => {
                            scn.calls[1] = CallSpec::Construct {
                                stalls: vec![
                                    Stall { at: Phase::Valid, nth: 1 + rng.below(n * 4), ns: STALL_NS },
                                    Stall { at: Phase::Sample, nth: n, ns: STALL_NS },
                                ],
                            };
                        }
                        _ => {}
                    }
                    // BFS deadline
                    let t = match rng.below(4) {
                        0 => 0,
                        1 => scn.clock.tick_ns.saturating_mul(1 + rng.below(20)),
                        _ => 1_000_000_000_000,
                    };
                    let last = scn.calls.len() - 1;
                    scn.calls[last] = CallSpec::Solve { timeout_ns: t, stalls: vec![] };
                } else {
                    match rng.below(8) {
                        0 => {
                            let last = scn.calls.len() - 1;
                            scn.calls[last] = CallSpec::Solve { timeout_ns: 0, stalls: vec![Stall { at: Phase::Sample, nth: 50, ns: STALL_NS }] };
                            scn.params.insert("zero_timeout".into(), 1.0);
                        }
                        1 => {
                            // huge limit, ended by a stall
                            let last = scn.calls.len() - 1;
                            scn.calls[last] = CallSpec::Solve {
                                timeout_ns: u64::MAX / 4,
                                stalls: vec![Stall { at: Phase::Sample, nth: 1 + rng.below(o.max_iters), ns: u64::MAX / 2 }],
                            };
                        }
                        4 => {
                            // re-setup with a problem whose goal is unreachable
                            with_histories(&mut scn, &mut rng, o.max_iters.min(80), &["goal_invalid", "goal_invalid", "sealed_goal", "sealed_start"], false);
                        }
                        2 | 3 => {
                            // a second (and third) solve on the kept tree
                            let its = 1 + rng.below(o.max_iters);
                            let (c, _) = gen::gen_solve(&mut rng, &mut scn.clock, its);
                            scn.calls.push(c);
                            if scn.problems[0].goal.sampler == GoalSampler::Planner {
                                scn.problems[0].goal.sampler = GoalSampler::Harness;
                            }
                        }
                        _ => {}
                    }
                }
            }
            _ => {}
        }
        // a tenth of the scenarios assign the public parameter fields after setup (the
        // constructor got other values)
        if matches!(self.id, "C02" | "C03" | "C05" | "C06") && rng.chance(0.1) && !scn.calls.iter().any(|c| matches!(c, CallSpec::New)) {
            let ext = scn.param("ext").unwrap_or(1.0);
            let ctor = gen::gen_planner(&mut rng, scn.planner.kind, ext);
            scn.reconfigure_after_setup(ctor);
        }
        scn
    }

    fn evaluate(&self, scn: &Scenario) -> Report {
        let mut rep = Report::default();
        // PRM harvest: a first run builds the roadmap; the scenario is then extended, as a pure
        // function of that run, by one replaced problem per milestone (goal = a tiny ball around
        // that milestone) and run again — the same seed builds the same roadmap, and every
        // reachable milestone ends a returned path, so nearly every milestone and every link of
        // the breadth-first tree appears on some path.
        let derived: Option<Scenario> = if scn.param("prm_harvest").is_some() && scn.planner.kind == PlannerKind::PRM {
            let first = run(scn, &RunOpts::default());
            rep.absorb(&first);
            let snap = first.calls.iter().zip(&scn.calls).find_map(|(c, sc)| match (&c.snap, sc) {
                (Some(Snap::Prm(rm)), CallSpec::Construct { .. }) => Some(rm.clone()),
                _ => None,
            });
            snap.map(|rm| {
                let mut d = scn.clone();
                let ext = scn.param("ext").unwrap_or(1.0);
                let stride = (rm.len() / 80).max(1);
                for (k, (state, _)) in rm.iter().enumerate() {
                    if k % stride != 0 {
                        continue;
                    }
                    let mut p = scn.problems[0].clone();
                    p.goal = GoalSpec { target: state.clone(), radius: 1e-6 * ext, sampler: GoalSampler::Fixed, sampler_seed: 0, comp: None, harness_metric: scn.problems[0].goal.harness_metric, cycle: vec![] };
                    p.space = None;
                    d.problems.push(p);
                    d.calls.push(CallSpec::SetProblem { problem: d.problems.len() - 1 });
                    d.calls.push(CallSpec::Solve { timeout_ns: 1_000_000_000_000, stalls: vec![] });
                }
                d
            })
        } else {
            None
        };
        let derived: Option<Scenario> = if scn.param("goal_sampler_fails_in_second_setup").is_some() {
            // dry run: the ordinal (over the scenario) of the sample_goal call the second setup makes
            let dry = run(scn, &RunOpts { snapshots: false, ..Default::default() });
            let second = scn.calls.iter().enumerate().filter(|(_, c)| matches!(c, CallSpec::Setup { .. })).map(|(i, _)| i).nth(1);
            second.and_then(|ci| dry.calls.get(ci)).and_then(|call| {
                let before = dry.log[..call.ev_lo].iter().filter(|e| matches!(e, Ev::SG(_))).count() as u64;
                let inside = dry.log[call.ev_lo..call.ev_hi].iter().filter(|e| matches!(e, Ev::SG(_))).count();
                if inside > 0 {
                    let mut d = scn.clone();
                    d.faults.push(FaultSpec::GoalSamplerErr { at_call: before + 1 });
                    rep.probe("goal_sampler_fault_in_setup");
                    Some(d)
                } else {
                    None
                }
            })
        } else {
            derived
        };
        let scn: &Scenario = derived.as_ref().unwrap_or(scn);
        let out = run(scn, &RunOpts::default());
        rep.absorb(&out);
        if let Some(e) = &out.build_error {
            rep.violations.push(viol("C00", "harness/build_error".into(), e.clone()));
            return rep;
        }
        let ev = Eval::new(scn, &out);
        let mut v = vec![];
        let solves = ev.solve_calls();
        if solves.len() > 1 {
            rep.probe("second_solve");
        }
        if scn.calls.iter().filter(|c| matches!(c, CallSpec::Setup { .. } | CallSpec::SetProblem { .. })).count() > 1 {
            rep.probe("resetup");
        }
        let mut seen_segments = if scn.param("harvest").is_some() || scn.param("prm_harvest").is_some() { Some(std::collections::HashSet::new()) } else { None };
        for (k, ci) in solves.iter().enumerate() {
            let call = &out.calls[*ci];
            if let Res::Path(p) = &call.res {
                rep.probe("path_returned");
                if k > 0 {
                    rep.probe("path_from_later_solve");
                }
                if let Some(Snap::Connect(a, b)) = &call.snap {
                    if let (Some(last), Some(root)) = (p.last(), b.first()) {
                        if !crate::spaces::bits_eq(last, &root.0) {
                            rep.probe("connect_direct");
                        } else if a.len() <= b.len() {
                            rep.probe("connect_via_start_growth");
                        } else {
                            rep.probe("connect_via_goal_growth");
                        }
                    }
                }
            }
            if let Res::Panic(m) = &call.res {
                rep.probe("planner_panic_noted");
                let _ = m;
            }
            let nt = match self.id {
                "C01" => {
                    if scn.param("start_invalid") == Some(1.0) || scn.param("start_invalid1") == Some(1.0) {
                        rep.probe("start_invalid");
                    }
                    ev.c01(*ci, &mut v)
                }
                "C02" => ev.c02(*ci, &mut v),
                "C03" => ev.c03_cached(*ci, &mut v, &mut seen_segments),
                "C04" => ev.c04(*ci, &mut v),
                "C05" => ev.c05(*ci, &mut v),
                _ => false,
            };
            rep.nontrivial |= nt;
        }
        if self.id == "C06" {
            let sealed_at = |ci: usize| -> Option<String> {
                let (pi, _) = crate::sim::installed_problem(scn, &out, ci)?;
                // the sealing argument needs the checker of the problem's own world
                if ev.checker_at(ci) != Some(scn.problems[pi].world) {
                    return None;
                }
                let key = if pi == 0 { "sealed" } else { "sealed1" };
                if scn.param(key) == Some(1.0) {
                    Some(if pi == 0 { scn.family.clone() } else { "second_problem".into() })
                } else {
                    None
                }
            };
            if scn.param("zero_timeout") == Some(1.0) {
                rep.probe("zero_timeout");
            }
            for ci in 0..out.calls.len() {
                let call = &out.calls[ci];
                if !matches!(scn.calls[ci], CallSpec::Solve { .. } | CallSpec::Construct { .. }) {
                    continue;
                }
                if let Some(kind) = ev.c06_overrun(ci, &mut v) {
                    rep.probe(kind);
                    rep.fault(kind);
                    rep.nontrivial = true;
                }
                if let Res::Abort(m) = &call.res {
                    v.push(viol(
                        "C06",
                        format!("C06/hang/{}/{}", ev.pk(), scn.family),
                        format!("{} did not return: {m}", ev.pk()),
                    ));
                }
                let sealed_fam = if matches!(scn.calls[ci], CallSpec::Solve { .. }) { sealed_at(ci) } else { None };
                if let Some(fam) = &sealed_fam {
                    rep.probe("sealed_runs");
                    rep.nontrivial = true;
                    if let Res::Path(p) = &call.res {
                        v.push(viol(
                            "C06",
                            format!("C06/false_success/{}/{}", ev.pk(), fam),
                            format!(
                                "{} returned Ok(path[{}]) in a world where the goal is provably unreachable at the space's resolution ({})",
                                ev.pk(),
                                p.len(),
                                fam
                            ),
                        ));
                    }
                }
            }
        }
        let _ = Ev::Call(0);
        rep.violations = v.into_iter().filter(|x| x.property == self.id).collect();
        rep
    }
}

// ==========================================================================================
// C07 — seeded planning is reproducible (twin runs, schedule perturbation)

pub struct C07;

fn op_label(scn: &Scenario, ci: usize) -> String {
    let nth = |pred: &dyn Fn(&CallSpec) -> bool| scn.calls[..=ci].iter().filter(|c| pred(c)).count();
    match &scn.calls[ci] {
        CallSpec::New => "new".into(),
        CallSpec::Setup { .. } => "setup".into(),
        CallSpec::SetProblem { .. } => "set_problem".into(),
        CallSpec::SetParams { .. } => "set_params".into(),
        CallSpec::Construct { .. } => {
            if nth(&|c| matches!(c, CallSpec::Construct { .. })) == 1 { "construct1".into() } else { "construct2+".into() }
        }
        CallSpec::Solve { .. } => {
            // ordinal since the last New (a fresh planner starts over)
            let last_new = scn.calls[..ci].iter().rposition(|c| matches!(c, CallSpec::New)).map(|p| p + 1).unwrap_or(0);
            let n = scn.calls[last_new..=ci].iter().filter(|c| matches!(c, CallSpec::Solve { .. } | CallSpec::Construct { .. })).count();
            if n == 1 { "solve1".into() } else { "solve2+".into() }
        }
    }
}

/// index of the first event at which two logs differ (kind or payload), ignoring nothing
fn first_divergence(a: &crate::sim::Outcome, b: &crate::sim::Outcome) -> Option<usize> {
    let n = a.log.len().min(b.log.len());
    for i in 0..n {
        if !ev_bits_eq(&a.log[i], &b.log[i]) {
            return Some(i);
        }
    }
    if a.log.len() != b.log.len() { Some(n) } else { None }
}

pub fn ev_bits_eq(a: &Ev, b: &Ev) -> bool {
    use crate::spaces::bits_eq;
    match (a, b) {
        (Ev::Call(x), Ev::Call(y)) | (Ev::Ret(x), Ev::Ret(y)) => x == y,
        (Ev::Clock(x), Ev::Clock(y)) => x == y,
        (Ev::SU(None), Ev::SU(None)) | (Ev::SG(None), Ev::SG(None)) => true,
        (Ev::SU(Some(x)), Ev::SU(Some(y))) | (Ev::SG(Some(x)), Ev::SG(Some(y))) => bits_eq(x, y),
        (Ev::Valid(x, p), Ev::Valid(y, q)) | (Ev::Sat(x, p), Ev::Sat(y, q)) => p == q && bits_eq(x, y),
        (Ev::OutOfBounds(x), Ev::OutOfBounds(y)) => bits_eq(x, y),
        _ => false,
    }
}

fn res_bits_eq(a: &Res, b: &Res) -> bool {
    match (a, b) {
        (Res::Path(p), Res::Path(q)) => p.len() == q.len() && p.iter().zip(q).all(|(x, y)| crate::spaces::bits_eq(x, y)),
        (x, y) => x == y,
    }
}

impl Check for C07 {
    fn id(&self) -> &'static str {
        "C07"
    }
    fn rule(&self) -> String {
        "scenario i = a seeded planner, a world, a goal sampler that consumes the planner's generator, and a call history (first solve cut short by the virtual clock, further solves, re-setup, PRM construction twice, solve before setup); it is executed twice on fresh instances (twin) and, for single-solve scenarios, a third time under a different clock cost pattern and deadline (schedule perturbation); distinct = distinct scenario hash; non-trivial = both twins executed at least one planning iteration that drew from the planner's generator (a sampling event was recorded)".into()
    }
    fn default_runs(&self, tier: Tier) -> u64 {
        match tier {
            Tier::Quick => 60_000,
            Tier::Thorough => 1_200_000,
        }
    }
    fn assumptions(&self) -> Vec<String> {
        vec![
            "a leaked 64-bit entropy draw changes a continuous state with probability 1-2^-53, so twin comparison detects it in practice with certainty".into(),
            "user callbacks are deterministic".into(),
        ]
    }
    fn required_probes(&self) -> Vec<&'static str> {
        vec!["second_solve", "resetup", "perturbation_twin", "resume_perturbation_twin", "goal_sampler_consumes_rng", "prm_deadline_moved_within_iteration"]
    }
    fn generate(&self, seed: u64, index: u64, tier: Tier) -> Scenario {
        let mut rng = Xo::new(mix(seed, "C07", index));
        let o = GenOpts {
            max_iters: if tier == Tier::Thorough { 200 } else { 80 },
            min_frac: 0.01,
            families: vec!["open", "balls", "balls", "shell_door", "goal_overlap", "sealed_goal", "zero_weight"],
            goal_sampler: Some(*rng.pick(&[GoalSampler::Planner, GoalSampler::Planner, GoalSampler::Fixed])),
            ..Default::default()
        };
        let mut scn = gen::base(&mut rng, "C07", seed, index, &o);
        if scn.planner.goal_bias == 0.0 && rng.chance(0.5) {
            scn.planner.goal_bias = 0.3;
        }
        let ext = scn.param("ext").unwrap_or(1.0);
        let l = crate::spaces::geo_for(&scn.space).unwrap().lvs();
        let it = |rng: &mut Xo, scn: &Scenario| gen::affordable_iters(&scn.planner, l, ext, 1 + rng.below(o.max_iters));
        let prm = scn.planner.kind == PlannerKind::PRM;
        match rng.below(8) {
            0 | 1 => {
                // single solve: also perturb the schedule
                scn.params.insert("perturb".into(), 1.0);
            }
            2 | 3 => {
                // first solve cut short, then more
                if prm {
                    let a = it(&mut rng, &scn);
                    scn.calls = vec![CallSpec::Setup { problem: 0 }, gen::construct_call(a), solve_budget(1), solve_budget(1), CallSpec::Setup { problem: 0 }, gen::construct_call(a), solve_budget(1)];
                } else {
                    let (a, b) = (1 + rng.below(8), it(&mut rng, &scn));
                    scn.calls = vec![CallSpec::Setup { problem: 0 }, solve_budget(a), solve_budget(b), solve_budget(b)];
                }
            }
            4 => {
                let (a, b) = (it(&mut rng, &scn), it(&mut rng, &scn));
                if prm {
                    scn.calls = vec![CallSpec::Setup { problem: 0 }, gen::construct_call(a), gen::construct_call(b), solve_budget(1)];
                } else {
                    scn.calls = vec![CallSpec::Setup { problem: 0 }, solve_budget(a), CallSpec::Setup { problem: 0 }, solve_budget(b)];
                }
            }
            6 if !prm => {
                // interrupted and resumed, twice with the interruption at different points: time
                // may only decide how many iterations the first call completes
                let a = 1 + rng.below(20);
                let b = it(&mut rng, &scn) + 30;
                scn.calls = vec![CallSpec::Setup { problem: 0 }, solve_budget(a), solve_budget(b)];
                scn.params.insert("resume_perturb".into(), (1 + rng.below(20)) as f64);
            }
            5 => {
                // misuse first: solve before setup must not cost the planner its seeded generator
                let a = it(&mut rng, &scn);
                if prm {
                    scn.calls = vec![gen::construct_call(a), solve_budget(1), CallSpec::Setup { problem: 0 }, gen::construct_call(a), solve_budget(1)];
                } else {
                    scn.calls = vec![solve_budget(a), CallSpec::Setup { problem: 0 }, solve_budget(a)];
                }
            }
            _ => {}
        }
        scn
    }

    fn evaluate(&self, scn: &Scenario) -> Report {
        let mut rep = Report::default();
        let a = run(scn, &RunOpts::default());
        let b = run(scn, &RunOpts::default());
        rep.absorb(&a);
        rep.absorb(&b);
        let pk = scn.planner.kind.name();
        if scn.calls.iter().filter(|c| matches!(c, CallSpec::Solve { .. })).count() > 1 {
            rep.probe("second_solve");
        }
        if scn.calls.iter().filter(|c| matches!(c, CallSpec::Setup { .. })).count() > 1 {
            rep.probe("resetup");
        }
        if scn.problems[0].goal.sampler == GoalSampler::Planner && a.log.iter().any(|e| matches!(e, Ev::SG(_))) {
            rep.probe("goal_sampler_consumes_rng");
        }
        rep.nontrivial = a.log.iter().any(|e| matches!(e, Ev::SU(_) | Ev::SG(_))) && b.log.iter().any(|e| matches!(e, Ev::SU(_) | Ev::SG(_)));
        let mut v = vec![];
        // results of every call
        for ci in 0..a.calls.len().min(b.calls.len()) {
            if !res_bits_eq(&a.calls[ci].res, &b.calls[ci].res) {
                v.push(viol(
                    "C07",
                    format!("C07/twin_result_differs/{pk}/{}", op_label(scn, ci)),
                    format!(
                        "two fresh {pk} instances with seed {:?} and identical calls returned different results at call #{ci} ({}): {} vs {}",
                        scn.planner.seed,
                        op_label(scn, ci),
                        a.calls[ci].res.short(),
                        b.calls[ci].res.short()
                    ),
                ));
                break;
            }
        }
        if v.is_empty() {
            if let Some(i) = first_divergence(&a, &b) {
                // locate the call the divergent event belongs to
                let ci = a.calls.iter().position(|c| i >= c.ev_lo && i < c.ev_hi).unwrap_or(0);
                v.push(viol(
                    "C07",
                    format!("C07/twin_history_differs/{pk}/{}", op_label(scn, ci)),
                    format!(
                        "identically driven twins diverge at event #{i} (call #{ci}, {}): {:?} vs {:?}",
                        op_label(scn, ci),
                        a.log.get(i).map(|e| e.kind_byte() as char),
                        b.log.get(i).map(|e| e.kind_byte() as char)
                    ),
                ));
            }
        }
        // resume perturbation: the same history with the first solve interrupted elsewhere (and
        // another clock pattern). The planner's sampling stream over both calls must be the same
        // sequence (one is a prefix of the other), and two successful final calls return the
        // same path.
        if let (Some(a2), true) = (scn.param("resume_perturb"), v.is_empty()) {
            rep.probe("resume_perturbation_twin");
            let mut s2 = scn.clone();
            s2.clock.tick_ns = scn.clock.tick_ns * 3 + 1;
            s2.clock.cost_valid = vec![7, 0];
            s2.clock.cost_goal = vec![];
            let total: u64 = scn.calls.iter().map(|c| if let CallSpec::Solve { stalls, .. } = c { stalls.first().map(|s| s.nth).unwrap_or(0) } else { 0 }).sum();
            let a2 = a2 as u64;
            s2.calls = vec![CallSpec::Setup { problem: 0 }, solve_budget(a2), solve_budget(total.saturating_sub(a2).max(1))];
            let c = run(&s2, &RunOpts::default());
            rep.absorb(&c);
            // everything up to and including each run's FIRST successful solve is comparable (what
            // a planner does when asked again after a success is another matter)
            let first_ok = |o: &crate::sim::Outcome| -> Option<usize> { o.calls.iter().position(|x| matches!(x.res, Res::Path(_))) };
            let (fa, fc) = (first_ok(&a), first_ok(&c));
            let samples = |o: &crate::sim::Outcome, upto: Option<usize>| -> Vec<Ev> {
                let hi = upto.map(|ci| o.calls[ci].ev_hi).unwrap_or(o.log.len());
                o.log[..hi].iter().filter(|e| e.phase() == Some(Phase::Sample)).cloned().collect()
            };
            let (sa, sc) = (samples(&a, fa), samples(&c, fc));
            let n = sa.len().min(sc.len());
            if let Some(i) = (0..n).find(|i| !ev_bits_eq(&sa[*i], &sc[*i])) {
                v.push(viol(
                    "C07",
                    format!("C07/interruption_changes_decisions/{pk}"),
                    format!("the same seeded history with the first solve interrupted after {a2} instead of {} iterations draws a different {i}-th sample: where the deadline fell changed which decisions were taken", scn.calls.iter().find_map(|c| if let CallSpec::Solve { stalls, .. } = c { stalls.first().map(|s| s.nth) } else { None }).unwrap_or(0)),
                ));
            } else if let (Some(ia), Some(ic)) = (fa, fc) {
                if !res_bits_eq(&a.calls[ia].res, &c.calls[ic].res) {
                    v.push(viol(
                        "C07",
                        format!("C07/interruption_changes_result/{pk}"),
                        "the same seeded history interrupted at another point returns a different first path although the sampling stream is the same".into(),
                    ));
                }
            } else if fa.is_some() != fc.is_some() && sa.len() == sc.len() {
                v.push(viol(
                    "C07",
                    format!("C07/interruption_changes_outcome/{pk}"),
                    "the same seeded history with the same total number of iterations finds a path when interrupted at one point and none when interrupted at another".into(),
                ));
            }
        }
        // schedule perturbation: same seed, other clock pattern and a later deadline
        if scn.param("perturb") == Some(1.0) && v.is_empty() {
            rep.probe("perturbation_twin");
            let mut s2 = scn.clone();
            // every other twin reads a clock that is a thousand times slower (a microsecond
            // becomes a millisecond): anything inside the planner or the space that measures
            // time for itself — a sampler with a time budget, say — then behaves differently
            s2.clock.tick_ns = if scn.clock.tick_ns <= 1000 && scn.index % 2 == 1 { scn.clock.tick_ns * 997 + 3 } else { scn.clock.tick_ns * 7 + 3 };
            s2.clock.cost_valid = vec![17, 0, 3];
            s2.clock.cost_sample = vec![5];
            s2.clock.cost_goal = vec![0, 11];
            for c in &mut s2.calls {
                match c {
                    CallSpec::Solve { timeout_ns, stalls } => {
                        *timeout_ns = 1_000_000_000_000;
                        let n = a.log.iter().filter(|e| e.phase() == Some(Phase::Sample)).count() as u64;
                        *stalls = vec![Stall { at: Phase::Sample, nth: n + 7, ns: STALL_NS }];
                    }
                    _ => {}
                }
            }
            if scn.planner.kind == PlannerKind::PRM {
                // PRM at equal sample counts: let the construction deadline fall at another point
                // inside the last iteration (inside one of its validity queries instead of inside
                // its sampling call); roadmap and query results must not change
                if let Some(cc) = scn.calls.iter().position(|c| matches!(c, CallSpec::Construct { .. })) {
                    if let Some(call) = a.calls.get(cc) {
                        let evs = &a.log[call.ev_lo..call.ev_hi];
                        let n_samples = evs.iter().filter(|e| e.phase() == Some(Phase::Sample)).count() as u64;
                        let last_sample_pos = evs.iter().rposition(|e| e.phase() == Some(Phase::Sample)).unwrap_or(0);
                        let v0 = evs[..last_sample_pos].iter().filter(|e| e.phase() == Some(Phase::Valid)).count() as u64;
                        let v1 = evs.iter().filter(|e| e.phase() == Some(Phase::Valid)).count() as u64;
                        if n_samples >= 1 && v1 > v0 {
                            let mut s3 = scn.clone();
                            let mut k = v0 + 1;
                            let mut tried = 0;
                            while k <= v1 && tried < 4 {
                                s3.calls[cc] = CallSpec::Construct {
                                    stalls: vec![
                                        Stall { at: Phase::Valid, nth: k, ns: STALL_NS },
                                        Stall { at: Phase::Sample, nth: n_samples + 1, ns: STALL_NS },
                                    ],
                                };
                                let c = run(&s3, &RunOpts::default());
                                rep.absorb(&c);
                                rep.probe("prm_deadline_moved_within_iteration");
                                let same_samples = c.calls.get(cc).map(|x| c.log[x.ev_lo..x.ev_hi].iter().filter(|e| e.phase() == Some(Phase::Sample)).count() as u64) == Some(n_samples);
                                if same_samples {
                                    let snap_differs = c.calls.get(cc).map(|x| &x.snap) != a.calls.get(cc).map(|x| &x.snap);
                                    let res_differs = (0..a.calls.len().min(c.calls.len())).any(|i| !res_bits_eq(&a.calls[i].res, &c.calls[i].res));
                                    if snap_differs || res_differs {
                                        v.push(viol(
                                            "C07",
                                            "C07/time_changes_decisions/PRM".into(),
                                            format!("PRM with the same seed and the same number of samples ({n_samples}) built a different roadmap / answered differently when the construction deadline fell at validity query {k} instead of inside the last sampling call"),
                                        ));
                                        break;
                                    }
                                }
                                // spread the tried positions over the last iteration
                                k += ((v1 - v0) / 4).max(1);
                                tried += 1;
                            }
                        }
                    }
                }
            } else {
                let c = run(&s2, &RunOpts::default());
                rep.absorb(&c);
                let strip = |o: &crate::sim::Outcome| -> Vec<Ev> { o.log.iter().filter(|e| e.phase().is_some()).cloned().collect() };
                let (ea, ec) = (strip(&a), strip(&c));
                let n = ea.len().min(ec.len());
                if let Some(i) = (0..n).find(|i| !ev_bits_eq(&ea[*i], &ec[*i])) {
                    v.push(viol(
                        "C07",
                        format!("C07/time_changes_decisions/{pk}"),
                        format!("with the same seed but another clock cost pattern the planner's {i}-th sampling/validity/goal event differs: time changed which decisions were taken, not only how many iterations ran"),
                    ));
                } else if ea.len() > ec.len() {
                    v.push(viol(
                        "C07",
                        format!("C07/time_changes_decisions/{pk}"),
                        "the run with the later deadline executed fewer events than the run with the earlier one".into(),
                    ));
                }
            }
        }
        rep.violations = v;
        rep
    }
}

// ==========================================================================================
// C08 — API misuse and sampler failures surface as errors (reference model + fault enumeration)

pub struct C08;

#[derive(Clone, Copy, PartialEq, Debug)]
enum Op {
    New,
    Setup0,
    Setup1,
    Construct,
    SetProblem1,
    Solve,
}
const OPS_PRM: [Op; 6] = [Op::New, Op::Setup0, Op::Setup1, Op::Construct, Op::SetProblem1, Op::Solve];
const OPS_TREE: [Op; 4] = [Op::New, Op::Setup0, Op::Setup1, Op::Solve];

fn seq_count(alpha: usize, max_len: usize) -> u64 {
    (1..=max_len).map(|l| (alpha as u64).pow(l as u32)).sum()
}

/// n-th call sequence (shortest first) over the alphabet
fn nth_seq(alpha: &[Op], mut n: u64) -> Vec<Op> {
    let a = alpha.len() as u64;
    let mut len = 1;
    loop {
        let c = a.pow(len);
        if n < c {
            break;
        }
        n -= c;
        len += 1;
    }
    let mut v = vec![];
    for _ in 0..len {
        v.push(alpha[(n % a) as usize]);
        n /= a;
    }
    v
}

struct C08Layout {
    max_len: usize,
    n_seq: [u64; 4], // per planner in PlannerKind::ALL order
    max_k: u64,
    n_fault: u64,
    n_param: u64,
}

fn c08_layout(tier: Tier) -> C08Layout {
    let max_len = if tier == Tier::Thorough { 6 } else { 4 };
    let max_k = if tier == Tier::Thorough { 64 } else { 16 };
    let t = seq_count(4, max_len);
    let p = seq_count(6, max_len);
    C08Layout { max_len, n_seq: [t, t, t, p], max_k, n_fault: 4 * 2 * max_k, n_param: 4 * 7 }
}

fn c08_small_world(rng: &mut Xo, kind: PlannerKind, seed: u64, index: u64) -> Scenario {
    // a cheap, mostly feasible two-problem scenario
    let o = GenOpts {
        planner: Some(kind),
        families: vec!["open", "balls", "balls"],
        space_kinds: vec!["RV", "RV", "SE2", "SO2", "Compound"],
        max_iters: 60,
        min_frac: 0.05,
        goal_sampler: Some(GoalSampler::Harness),
        ..Default::default()
    };
    let mut scn = gen::base(rng, "C08", seed, index, &o);
    let ext = scn.param("ext").unwrap_or(1.0);
    scn.planner.max_distance = ext * rng.range(0.1, 0.4);
    scn.planner.search_radius = scn.planner.max_distance * 1.5;
    scn.planner.connection_radius = ext * rng.range(0.3, 0.8);
    scn.planner.goal_bias = 0.3;
    // second problem in the same world (the checker in force is the one given to setup)
    let mut geo = crate::spaces::geo_for(&scn.space).unwrap();
    geo.set_worlds(&scn.worlds);
    let mut pick = |rng: &mut Xo| -> St {
        for _ in 0..200 {
            if let Some(s) = geo.sample(rng) {
                if geo.valid(0, &s) {
                    return s;
                }
            }
        }
        scn.problems[0].starts[0].clone()
    };
    let (s2, t2) = (pick(rng), pick(rng));
    let g = scn.problems[0].goal.clone();
    scn.problems.push(ProblemSpec {
        starts: vec![s2],
        goal: GoalSpec { target: t2, radius: g.radius, sampler: GoalSampler::Harness, sampler_seed: g.sampler_seed + 1, comp: None, harness_metric: g.harness_metric, cycle: vec![] },
        world: 0, space: None
    });
    scn
}

impl Check for C08 {
    fn id(&self) -> &'static str {
        "C08"
    }
    fn level(&self) -> &'static str {
        "fault_enumeration"
    }
    fn rule(&self) -> String {
        "index ranges, in order: (1) EVERY call sequence up to length 4 (quick) / 6 (thorough) over {new, setup(P1), setup(P2), construct_roadmap, set_problem_definition(P2), solve} for PRM and over {new, setup(P1), setup(P2), solve} for the tree planners, each in a generated two-problem world, checked call by call against a reference state machine; (2) for every planner x {uniform sampler, goal sampler}: the sampler fails at its k-th call for EVERY k <= 16 (quick) / 64 (thorough); (3) goal bias in {-0.1, 1.5, NaN}, empty start list, unbounded R^n, negative step; (4) a quarter of the remaining indices: seeded call sequences of 5..12 calls over the same alphabets (equal roadmap sample budgets, second problem sharing the first one's goal object half of the time), the rest: seeded well-formed scenarios from all world families with setup / re-setup / replacement histories. Problem-definition and goal objects are kept and re-used across calls (fresh objects in a quarter of the scenarios). distinct = distinct scenario hash; non-trivial = the sequence contains a solve or construct call that executed (ranges 1, 4) or the injected fault actually fired while the planner was running (ranges 2, 3)".into()
    }
    fn default_runs(&self, tier: Tier) -> u64 {
        let l = c08_layout(tier);
        let fixed: u64 = l.n_seq.iter().sum::<u64>() + l.n_fault + l.n_param;
        fixed + if tier == Tier::Thorough { 1_000_000 } else { 60_000 }
    }
    fn assumptions(&self) -> Vec<String> {
        vec!["after a panic the scenario stops (the planner may be left inconsistent); the panic itself is the violation".into()]
    }
    fn required_probes(&self) -> Vec<&'static str> {
        vec!["seq_enumerated", "fault_fired", "solve_before_setup", "prm_query_before_roadmap", "stale_answer_checked", "ok_after_resetup"]
    }
    fn generate(&self, seed: u64, index: u64, tier: Tier) -> Scenario {
        let l = c08_layout(tier);
        let mut rng = Xo::new(mix(seed, "C08", index));
        let mut i = index;
        // (1) enumerated sequences
        for (pi, kind) in PlannerKind::ALL.iter().enumerate() {
            if i < l.n_seq[pi] {
                let alpha: &[Op] = if *kind == PlannerKind::PRM { &OPS_PRM } else { &OPS_TREE };
                let ops = nth_seq(alpha, i);
                let mut scn = c08_small_world(&mut rng, *kind, seed, index);
                scn.family = "call_sequence".into();
                scn.calls = ops
                    .iter()
                    .map(|o| match o {
                        Op::New => CallSpec::New,
                        Op::Setup0 => CallSpec::Setup { problem: 0 },
                        Op::Setup1 => CallSpec::Setup { problem: 1 },
                        Op::Construct => gen::construct_call(30),
                        Op::SetProblem1 => CallSpec::SetProblem { problem: 1 },
                        Op::Solve => solve_budget(40),
                    })
                    .collect();
                scn.params.insert("c08_range".into(), 1.0);
                return scn;
            }
            i -= l.n_seq[pi];
        }
        // (2) sampler fault at the k-th call
        if i < l.n_fault {
            let kind = PlannerKind::ALL[(i / (2 * l.max_k)) as usize];
            let which = (i / l.max_k) % 2;
            let k = 1 + i % l.max_k;
            let mut scn = c08_small_world(&mut rng, kind, seed, index);
            scn.family = if which == 0 { "uniform_sampler_err".into() } else { "goal_sampler_err".into() };
            scn.faults = vec![if which == 0 { FaultSpec::UniformSamplerErr { at_call: k } } else { FaultSpec::GoalSamplerErr { at_call: k } }];
            scn.planner.goal_bias = 0.5;
            // make reaching the k-th call likely: far goal, small steps
            scn.planner.max_distance = scn.param("ext").unwrap_or(1.0) * 0.02;
            scn.calls = if kind == PlannerKind::PRM {
                vec![CallSpec::Setup { problem: 0 }, gen::construct_call(k + 20), solve_budget(1)]
            } else {
                vec![CallSpec::Setup { problem: 0 }, solve_budget(2 * k + 40)]
            };
            scn.params.insert("c08_range".into(), 2.0);
            return scn;
        }
        i -= l.n_fault;
        // (3) parameter faults
        if i < l.n_param {
            let kind = PlannerKind::ALL[(i / 7) as usize];
            let mut scn = c08_small_world(&mut rng, kind, seed, index);
            match i % 7 {
                6 => {
                    // a negative (or negative-zero, or tiny) roadmap build time: nothing is
                    // sampled, the calls still return, the query reports the unsampled space
                    scn.planner.prm_timeout_s = *rng.pick(&[-1.0, -0.5, -1e-9, -1e12, -f64::MIN_POSITIVE, -0.0]);
                    scn.calls = if kind == PlannerKind::PRM { vec![CallSpec::Setup { problem: 0 }, CallSpec::Construct { stalls: vec![] }, solve_budget(5)] } else { vec![CallSpec::Setup { problem: 0 }, solve_budget(5)] };
                    scn.family = "negative_build_time".into();
                }
                0 => {
                    scn.planner.goal_bias = -0.1;
                    scn.family = "goal_bias_out_of_range".into();
                }
                1 => {
                    scn.planner.goal_bias = 1.5;
                    scn.family = "goal_bias_out_of_range".into();
                }
                2 => {
                    scn.planner.goal_bias = f64::NAN;
                    scn.family = "goal_bias_out_of_range".into();
                }
                3 => {
                    scn.problems[0].starts.clear();
                    scn.family = "empty_start_list".into();
                }
                4 => {
                    scn = {
                        let mut s = scn;
                        s.space = SpaceSpec::RV { dim: 2, bounds: None, frac: 0.05 };
                        s.worlds = vec![WorldSpec::default()];
                        s.problems.truncate(1);
                        s.problems[0].starts = vec![vec![0.0, 0.0]];
                        s.problems[0].goal.target = vec![3.0, 3.0];
                        s.problems[0].goal.radius = 0.5;
                        s.problems[0].goal.sampler = GoalSampler::Fixed;
                        s.planner.max_distance = 0.5;
                        s.planner.connection_radius = 2.0;
                        s.planner.goal_bias = 0.2;
                        s.family = "unbounded_space".into();
                        s
                    };
                }
                _ => {
                    scn.planner.max_distance = -scn.planner.max_distance;
                    scn.planner.connection_radius = -scn.planner.connection_radius;
                    scn.planner.search_radius = -scn.planner.search_radius;
                    scn.family = "negative_step".into();
                }
            }
            scn.params.insert("c08_range".into(), 3.0);
            return scn;
        }
        // (4a) seeded call sequences longer than the enumerated ones (5..12 calls), biased toward
        // sequences in which queries actually run: setup, construct and solve are more frequent
        if i % 4 == 0 {
            let kind = *rng.pick(&PlannerKind::ALL);
            let mut scn = c08_small_world(&mut rng, kind, seed, index);
            // the second problem keeps the first one's goal half of the time (same goal object)
            if rng.chance(0.5) {
                scn.problems[1].goal = scn.problems[0].goal.clone();
            }
            let alpha: &[Op] = if kind == PlannerKind::PRM {
                &[Op::New, Op::Setup0, Op::Setup0, Op::Setup1, Op::Construct, Op::Construct, Op::SetProblem1, Op::Solve, Op::Solve, Op::Solve]
            } else {
                &[Op::New, Op::Setup0, Op::Setup0, Op::Setup1, Op::Solve, Op::Solve, Op::Solve]
            };
            let n = rng.usize_in(5, 12);
            let samples = 10 + rng.below(40);
            scn.family = "long_call_sequence".into();
            scn.calls = (0..n)
                .map(|_| match *rng.pick(alpha) {
                    Op::New => CallSpec::New,
                    Op::Setup0 => CallSpec::Setup { problem: 0 },
                    Op::Setup1 => CallSpec::Setup { problem: 1 },
                    // equal sample budgets: a rebuilt roadmap has exactly as many samples as the old one
                    Op::Construct => gen::construct_call(samples),
                    Op::SetProblem1 => CallSpec::SetProblem { problem: 1 },
                    Op::Solve => solve_budget(1 + rng.below(60)),
                })
                .collect();
            scn.params.insert("c08_range".into(), 1.0);
            return scn;
        }
        // (4c) the user's validity checker unwinds at its k-th call inside a solve; the caller
        // catches it and goes on using the planner: every later call returns normally and a
        // later successful solve still answers the installed problem (see panic_resume)
        if i % 16 == 3 {
            let o2 = GenOpts { families: vec!["open", "balls", "balls", "shell_door"], min_frac: 0.01, ..Default::default() };
            let mut scn = panic_resume("C08", seed, index, o2);
            scn.params.insert("c08_range".into(), 4.0);
            return scn;
        }
        // (4b) a narrow rotation cone (5 to 15 degrees): rejection sampling needs thousands of
        // draws per sample — slow but legal, and sampling must still not fail
        if i % 2003 == 1 {
            let kind = *rng.pick(&PlannerKind::ALL);
            let mut scn = c08_small_world(&mut rng, kind, seed, index);
            let q = { let v: Vec<f64> = (0..4).map(|_| rng.range(-1.0, 1.0)).collect(); let n = v.iter().map(|x| x * x).sum::<f64>().sqrt().max(1e-9); [v[0] / n, v[1] / n, v[2] / n, v[3] / n] };
            let a = rng.range(0.09, 0.26);
            scn.space = SpaceSpec::SO3 { bounds: Some((q, a)), frac: 0.05 };
            scn.worlds = vec![WorldSpec::default()];
            scn.problems.truncate(1);
            scn.problems[0].space = None;
            scn.problems[0].starts = vec![q.to_vec()];
            scn.problems[0].goal.target = q.to_vec();
            scn.problems[0].goal.radius = 0.5 * a;
            scn.problems[0].goal.comp = None;
            scn.problems[0].goal.sampler = GoalSampler::Fixed;
            scn.planner.max_distance = 0.3 * a;
            scn.planner.search_radius = 0.6 * a;
            scn.planner.connection_radius = a;
            scn.planner.goal_bias = 0.0;
            scn.params.insert("ext".into(), 2.0 * a);
            scn.calls = if kind == PlannerKind::PRM { vec![CallSpec::Setup { problem: 0 }, gen::construct_call(4), solve_budget(1)] } else { vec![CallSpec::Setup { problem: 0 }, solve_budget(4)] };
            scn.family = "narrow_cone".into();
            scn.params.insert("c08_range".into(), 4.0);
            return scn;
        }
        // (4) well-formed scenarios from all families
        let o = GenOpts { max_iters: 150, min_frac: 0.01, ..Default::default() };
        let mut scn = gen::base(&mut rng, "C08", seed, index, &o);
        if rng.chance(0.3) {
            with_setup_histories(&mut scn, &mut rng, 40);
        }
        // time limits from 0 upward are well-formed input too
        if rng.chance(0.25) {
            let t = match rng.below(3) {
                0 => 0,
                1 => scn.clock.tick_ns.saturating_mul(1 + rng.below(30)),
                _ => 1 + rng.below(5000),
            };
            for c in &mut scn.calls {
                if let CallSpec::Solve { timeout_ns, .. } = c {
                    *timeout_ns = t;
                }
            }
        }
        scn.params.insert("c08_range".into(), 4.0);
        scn
    }

    fn evaluate(&self, scn: &Scenario) -> Report {
        use crate::sim::ErrKind::*;
        let mut rep = Report::default();
        let out = run(scn, &RunOpts::default());
        rep.absorb(&out);
        let ev = Eval::new(scn, &out);
        let pk = scn.planner.kind.name();
        let prm = scn.planner.kind == PlannerKind::PRM;
        let range = scn.param("c08_range").unwrap_or(4.0) as u32;
        if range == 1 {
            rep.probe("seq_enumerated");
        }
        let mut v = vec![];
        // reference state machine
        let mut pd: Option<usize> = None;
        let mut vc: Option<usize> = None;
        let mut prev_snap: Option<Snap> = None;
        for (ci, call) in out.calls.iter().enumerate() {
            let op = op_label(scn, ci);
            let opn = match &scn.calls[ci] {
                CallSpec::New => "new",
                CallSpec::Setup { .. } => "setup",
                CallSpec::SetProblem { .. } => "set_problem_definition",
                CallSpec::Construct { .. } => "construct_roadmap",
                CallSpec::Solve { .. } => "solve",
                CallSpec::SetParams { .. } => "assigning the public parameter fields",
            };
            // 1. every call returns normally
            match &call.res {
                Res::Panic(m) => {
                    let evs = &out.log[call.ev_lo..call.ev_hi];
                    let injected_u = scn.faults.iter().any(|f| matches!(f, FaultSpec::UniformSamplerErr { .. })) && evs.iter().any(|e| matches!(e, Ev::SU(None)));
                    let injected_g = evs.iter().any(|e| matches!(e, Ev::SG(None)));
                    let cause = if injected_g {
                        "goal_sampler_err"
                    } else if injected_u {
                        "uniform_sampler_err"
                    } else if evs.iter().any(|e| matches!(e, Ev::SU(None))) {
                        // the library's own sampler returned Err without any injection: the
                        // documented error of an unbounded R^n (a known finding that it is
                        // unwrapped) — on a BOUNDED space it is a sampler that gave up
                        let unbounded = match &scn.space {
                            SpaceSpec::RV { bounds: None, .. } => true,
                            SpaceSpec::Compound { parts, .. } => parts.iter().any(|p| matches!(p, SpaceSpec::RV { bounds: None, .. })),
                            _ => false,
                        };
                        if unbounded { "unbounded_space" } else { "sampler_failed_on_a_bounded_space" }
                    } else if !(scn.planner.goal_bias >= 0.0 && scn.planner.goal_bias <= 1.0) {
                        "goal_bias_out_of_range"
                    } else if scn.problems.iter().any(|p| p.starts.is_empty()) {
                        "empty_start_list"
                    } else if scn.family == "negative_step" {
                        "negative_step"
                    } else {
                        "well_formed_input"
                    };
                    // a listed finding is this panic only if the message is the one that cause
                    // produces; any other panic in the same circumstances is a different failure
                    let expected_text = match cause {
                        "goal_sampler_err" => "GoalSamplingTimeout { attempts: 0 }",
                        "uniform_sampler_err" => "ZeroVolume",
                        "unbounded_space" => "UnboundedDimension",
                        "goal_bias_out_of_range" => "is outside range [0.0, 1.0]",
                        "empty_start_list" => "index out of bounds: the len is 0",
                        _ => "",
                    };
                    let cause = if m.contains(expected_text) { cause } else { "another_panic_under_a_fault" };
                    if cause != "well_formed_input" {
                        rep.probe("fault_fired");
                        rep.fault(cause);
                        rep.nontrivial = true;
                    }
                    v.push(viol("C08", format!("C08/panic/{pk}/{opn}/{cause}"), format!("{pk}::{opn} panicked instead of returning an error ({cause}): {m}")));
                    break;
                }
                Res::Abort(m) => {
                    v.push(viol("C08", format!("C08/no_return/{pk}/{opn}"), format!("{pk}::{opn} did not return: {m}")));
                    break;
                }
                _ => {}
            }
            if matches!(scn.calls[ci], CallSpec::Solve { .. } | CallSpec::Construct { .. }) && !matches!(call.res, Res::Skipped) {
                rep.nontrivial = true;
            }
            // 2. results against the model
            let uninit = pd.is_none() || vc.is_none();
            match &scn.calls[ci] {
                CallSpec::New => {
                    pd = None;
                    vc = None;
                }
                CallSpec::SetParams { .. } => {}
                CallSpec::Setup { problem } => {
                    pd = Some(*problem);
                    vc = Some(scn.problems[*problem].world);
                    if let Some(s) = &call.snap {
                        let ok = match s {
                            Snap::Prm(r) => r.is_empty(),
                            Snap::Tree(t) => t.len() == 1 && crate::spaces::bits_eq(&t[0].0, &scn.problems[*problem].starts[0]),
                            Snap::Star(t) => t.len() == 1 && crate::spaces::bits_eq(&t[0].0, &scn.problems[*problem].starts[0]),
                            Snap::Connect(a, b) => a.len() == 1 && b.len() == 1 && crate::spaces::bits_eq(&a[0].0, &scn.problems[*problem].starts[0]),
                        };
                        if !ok {
                            v.push(viol("C08", format!("C08/setup_keeps_state/{pk}"), format!("after setup(P{problem}) the planner still holds {} nodes from before (stale state)", s.node_count())));
                        }
                    }
                }
                CallSpec::SetProblem { problem } => {
                    if prm {
                        pd = Some(*problem);
                        if let (Some(a), Some(b)) = (&prev_snap, &call.snap) {
                            if a != b {
                                v.push(viol("C08", "C08/set_problem_changes_roadmap/PRM".into(), "set_problem_definition changed the roadmap".into()));
                            }
                        }
                    }
                }
                CallSpec::Construct { .. } => {
                    if prm {
                        let want_uninit = uninit;
                        match (&call.res, want_uninit) {
                            (Res::Err(PlannerUninitialised), true) => {}
                            (Res::Unit, false) => {}
                            (r, _) => v.push(viol(
                                "C08",
                                format!("C08/wrong_result/PRM/construct_roadmap"),
                                format!("construct_roadmap returned {} but the reference model expects {}", r.short(), if want_uninit { "Err(PlannerUninitialised)" } else { "Ok(())" }),
                            )),
                        }
                    }
                }
                CallSpec::Solve { .. } => {
                    let roadmap_empty = prm && prev_snap.as_ref().map(|s| s.node_count() == 0).unwrap_or(true);
                    let start_invalid = match (pd, vc) {
                        (Some(p), Some(w)) => scn.problems[p].starts.first().map(|s| !ev.geo.valid(w, s)).unwrap_or(false),
                        _ => false,
                    };
                    let expect: &str = if uninit {
                        rep.probe("solve_before_setup");
                        "Err(PlannerUninitialised)"
                    } else if roadmap_empty {
                        rep.probe("prm_query_before_roadmap");
                        "Err(UnsampledStateSpace)"
                    } else if start_invalid {
                        "Err(InvalidStartState)"
                    } else {
                        "Ok|Timeout|NoSolutionFound"
                    };
                    let ok = match (&call.res, expect) {
                        (Res::Err(PlannerUninitialised), "Err(PlannerUninitialised)") => true,
                        (Res::Err(UnsampledStateSpace), "Err(UnsampledStateSpace)") => true,
                        (Res::Err(InvalidStartState), "Err(InvalidStartState)") => true,
                        (Res::Path(_), "Ok|Timeout|NoSolutionFound") => true,
                        (Res::Err(Timeout), "Ok|Timeout|NoSolutionFound") => true,
                        (Res::Err(NoSolutionFound), "Ok|Timeout|NoSolutionFound") => prm,
                        // an injected unwinding of the user's checker: the caller caught it;
                        // this call is not judged, the ones after it are
                        (Res::UserPanic, _) => true,
                        _ => false,
                    };
                    if !ok {
                        v.push(viol(
                            "C08",
                            format!("C08/wrong_result/{pk}/solve/{}", expect.trim_start_matches("Err(").trim_end_matches(')')),
                            format!("call #{ci} ({op}): solve returned {} but the reference model expects {expect}", call.res.short()),
                        ));
                    }
                    if let Res::Path(_) = &call.res {
                        // a successful solve answers the most recently installed problem
                        rep.probe("stale_answer_checked");
                        if scn.calls[..ci].iter().filter(|c| matches!(c, CallSpec::Setup { .. } | CallSpec::SetProblem { .. })).count() > 1 {
                            rep.probe("ok_after_resetup");
                        }
                        let mut w = vec![];
                        ev.c02(ci, &mut w);
                        ev.c01(ci, &mut w);
                        for x in w {
                            v.push(viol("C08", format!("C08/stale_answer/{pk}/{}", x.sig), format!("call #{ci} ({op}): {}", x.detail)));
                        }
                    }
                }
            }
            if call.snap.is_some() {
                prev_snap = call.snap.clone();
            }
            if matches!(scn.calls[ci], CallSpec::New) {
                prev_snap = None;
            }
        }
        if range == 2 && out.faults_fired > 0 && v.is_empty() {
            // the fault fired and the planner turned it into a normal return
            rep.probe("fault_fired");
            rep.fault(&scn.family);
            rep.nontrivial = true;
        }
        rep.violations = v;
        rep
    }
}
