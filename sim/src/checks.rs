//! Per-property checks: generator + evaluation. C01–C06 (results and histories of solve calls).

use crate::gen::{self, GenOpts};
use crate::oracle::{viol, Eval};
use crate::prng::{mix, Xo};
use crate::runner::{Check, Report, Tier};
use crate::sim::{run, Ev, Res, RunOpts, Snap};
use crate::spec::*;

pub struct PathProp {
    pub id: &'static str,
}

fn second_problem(scn: &mut Scenario, rng: &mut Xo, families: &[&'static str]) {
    let mut geo = crate::spaces::geo_for(&scn.space).unwrap();
    let ext = scn.param("ext").unwrap_or(1.0);
    let fam = *rng.pick(families);
    let wb = gen::build_world(&mut geo, rng, ext, fam);
    scn.worlds.push(wb.world);
    let sampler = scn.problems[0].goal.sampler;
    scn.problems.push(ProblemSpec {
        starts: vec![wb.start],
        goal: GoalSpec { target: wb.target, radius: wb.goal_radius, sampler, sampler_seed: rng.u64() % 1_000_000 },
        world: scn.worlds.len() - 1,
    });
}

pub fn solve_budget(iters: u64) -> CallSpec {
    CallSpec::Solve { timeout_ns: 1_000_000_000_000, stalls: vec![Stall { at: Phase::Sample, nth: iters.max(1), ns: STALL_NS }] }
}

pub fn with_setup_histories(scn: &mut Scenario, rng: &mut Xo, max_iters: u64) {
    // API histories that precede the final solve
    let feasible = ["open", "balls", "shell_door"];
    second_problem(scn, rng, &feasible);
    let it = |rng: &mut Xo| 1 + rng.below(max_iters);
    let prm = scn.planner.kind == PlannerKind::PRM;
    let calls: Vec<CallSpec> = if prm {
        match rng.below(6) {
            0 => vec![CallSpec::Setup { problem: 0 }, gen::construct_call(it(rng)), solve_budget(1), CallSpec::SetProblem { problem: 1 }, solve_budget(1)],
            1 => vec![CallSpec::Setup { problem: 0 }, gen::construct_call(it(rng)), CallSpec::SetProblem { problem: 1 }, solve_budget(1)],
            2 => vec![CallSpec::Setup { problem: 0 }, gen::construct_call(it(rng)), CallSpec::Setup { problem: 1 }, gen::construct_call(it(rng)), solve_budget(1)],
            3 => vec![CallSpec::Setup { problem: 1 }, gen::construct_call(it(rng)), gen::construct_call(it(rng)), solve_budget(1), solve_budget(1)],
            4 => vec![CallSpec::Setup { problem: 0 }, gen::construct_call(it(rng)), CallSpec::SetProblem { problem: 1 }, CallSpec::SetProblem { problem: 0 }, solve_budget(1)],
            _ => vec![CallSpec::Setup { problem: 0 }, gen::construct_call(it(rng)), solve_budget(1)],
        }
    } else {
        let small = |rng: &mut Xo| 1 + rng.below(6);
        match rng.below(6) {
            0 => vec![CallSpec::Setup { problem: 0 }, solve_budget(small(rng)), solve_budget(it(rng))],
            1 => vec![CallSpec::Setup { problem: 0 }, solve_budget(small(rng)), solve_budget(small(rng)), solve_budget(it(rng))],
            2 => vec![CallSpec::Setup { problem: 0 }, CallSpec::Setup { problem: 1 }, solve_budget(it(rng))],
            3 => vec![CallSpec::Setup { problem: 0 }, solve_budget(it(rng)), CallSpec::Setup { problem: 1 }, solve_budget(it(rng))],
            4 => vec![CallSpec::Setup { problem: 1 }, solve_budget(it(rng)), solve_budget(it(rng)), CallSpec::Setup { problem: 0 }, solve_budget(it(rng))],
            _ => vec![CallSpec::Setup { problem: 0 }, solve_budget(it(rng))],
        }
    };
    scn.calls = calls;
    // histories with more than one solve must not depend on the planner's generator surviving
    for p in &mut scn.problems {
        if p.goal.sampler == GoalSampler::Planner {
            p.goal.sampler = GoalSampler::Harness;
        }
    }
}

impl PathProp {
    fn opts(&self, rng: &mut Xo, tier: Tier) -> GenOpts {
        let big = tier == Tier::Thorough;
        let mut o = GenOpts { max_iters: if big { 400 } else { 200 }, min_frac: 0.002, ..Default::default() };
        match self.id {
            "C01" => {
                o.families = vec!["start_in_obstacle", "start_in_obstacle", "goal_overlap", "goal_overlap", "goal_invalid", "balls", "shell_door", "thin_wall", "open"];
            }
            "C02" => {
                o.families = vec!["open", "balls", "shell_door"];
                o.min_frac = 0.01;
            }
            "C03" => {
                o.families = vec!["thin_wall", "thin_wall", "shell_door", "shell_door", "balls", "goal_overlap"];
                o.max_iters = if big { 300 } else { 150 };
            }
            "C04" => {
                o.families = vec!["open", "open", "balls"];
                o.angular_bias = rng.chance(0.8);
                if o.angular_bias {
                    o.space_kinds = vec!["SO2", "SO2", "SO3", "SE2", "SE3", "Compound"];
                }
                o.min_frac = 0.01;
            }
            "C05" => {
                o.families = vec!["open", "open", "balls", "shell_door"];
                o.min_frac = 0.01;
            }
            "C06" => {
                o.families = vec!["sealed_goal", "sealed_goal", "sealed_start", "goal_invalid", "thin_wall", "thin_wall", "balls", "open", "shell_door"];
                o.max_iters = if big { 300 } else { 120 };
            }
            _ => {}
        }
        o
    }
}

impl Check for PathProp {
    fn id(&self) -> &'static str {
        self.id
    }
    fn rule(&self) -> String {
        let common = "scenario i is generated from mix(VERIF_SEED, property, i): one of six space kinds (random bounds, weights, resolution fractions), a world family, a problem, a planner with random parameters and seed, a virtual-clock cost pattern and a deadline placement; distinct = distinct scenario hash; ";
        let nt = match self.id {
            "C01" => "non-trivial = a solve call returned a path, or the checker rejects the start state (the invalid-start clause is exercised)",
            "C02" => "non-trivial = a solve call returned a path (so the endpoint clauses were evaluated), in a history with the generated setup / re-setup / problem replacement / repeated-solve calls",
            "C03" => "non-trivial = a returned path contains at least one segment longer than the resolution L (so the coverage oracle had a gap to look for)",
            "C04" => "non-trivial = a path was returned and the premise held (start and every goal sample inside the bounds)",
            "C05" => "non-trivial = a path with at least two states was returned",
            "C06" => "non-trivial = the time limit passed during the call (a deadline event was located in the history), or the world is sealed and the call returned",
            _ => "",
        };
        format!("{common}{nt}")
    }
    fn default_runs(&self, tier: Tier) -> u64 {
        let q = match self.id {
            "C03" => 12_000,
            "C06" => 20_000,
            _ => 20_000,
        };
        match tier {
            Tier::Quick => q,
            Tier::Thorough => q * 25,
        }
    }
    fn assumptions(&self) -> Vec<String> {
        vec![
            "the simulated user's callbacks are deterministic pure functions of the state".into(),
            "worlds are in general position: no obstacle boundary passes between a validated state and its 1-ulp neighbour".into(),
            "sampling, not enumeration: a clean batch is evidence, not proof".into(),
        ]
    }
    fn required_probes(&self) -> Vec<&'static str> {
        match self.id {
            "C01" => vec!["path_returned", "start_invalid"],
            "C02" => vec!["path_returned", "second_solve", "resetup", "connect_direct", "connect_via_start_growth", "connect_via_goal_growth"],
            "C06" => vec!["sealed_runs", "deadline_in_sampler", "deadline_mid_motion_check", "deadline_at_clock_read", "zero_timeout"],
            _ => vec!["path_returned"],
        }
    }

    fn generate(&self, seed: u64, index: u64, tier: Tier) -> Scenario {
        let mut rng = Xo::new(mix(seed, self.id, index));
        let o = self.opts(&mut rng, tier);
        let mut scn = gen::base(&mut rng, self.id, seed, index, &o);
        match self.id {
            "C01" => {
                if rng.chance(0.25) {
                    // stepwise: interrupted and resumed
                    let its = 1 + rng.below(o.max_iters);
                    let prm = scn.planner.kind == PlannerKind::PRM;
                    if !prm {
                        scn.calls = vec![CallSpec::Setup { problem: 0 }, solve_budget(1 + rng.below(5)), solve_budget(its)];
                        if scn.problems[0].goal.sampler == GoalSampler::Planner {
                            scn.problems[0].goal.sampler = GoalSampler::Harness;
                        }
                    }
                }
            }
            "C02" => {
                with_setup_histories(&mut scn, &mut rng, o.max_iters);
            }
            "C03" => {
                // long edges: RRT* radii >> step, PRM radii spanning walls
                if rng.chance(0.5) {
                    scn.planner.search_radius = scn.planner.max_distance * rng.range(2.0, 8.0);
                }
            }
            "C06" => {
                // time limits from 0 upward, second solves, PRM construction deadlines
                let prm = scn.planner.kind == PlannerKind::PRM;
                if prm {
                    // keep the (affordable) sample budget the base generator chose
                    let n = match &scn.calls[1] {
                        CallSpec::Construct { stalls } => stalls.first().map(|s| s.nth).unwrap_or(1),
                        _ => 1,
                    };
                    match rng.below(4) {
                        0 => {
                            // construction deadline decided by ticks alone
                            scn.clock.cost_valid.clear();
                            scn.clock.cost_sample.clear();
                            scn.planner.prm_timeout_s = (scn.clock.tick_ns.saturating_mul(n)) as f64 * 1e-9;
                            scn.calls[1] = CallSpec::Construct { stalls: vec![Stall { at: Phase::Sample, nth: n + 200, ns: STALL_NS }] };
                        }
                        1 => {
                            scn.planner.prm_timeout_s = 0.0;
                            scn.calls[1] = CallSpec::Construct { stalls: vec![Stall { at: Phase::Sample, nth: 50, ns: STALL_NS }] };
                        }
                        2 => {
                            scn.calls[1] = CallSpec::Construct {
                                stalls: vec![
                                    Stall { at: Phase::Valid, nth: 1 + rng.below(n * 4), ns: STALL_NS },
                                    Stall { at: Phase::Sample, nth: n, ns: STALL_NS },
                                ],
                            };
                        }
                        _ => {}
                    }
                    // BFS deadline
                    let t = match rng.below(4) {
                        0 => 0,
                        1 => scn.clock.tick_ns.saturating_mul(1 + rng.below(20)),
                        _ => 1_000_000_000_000,
                    };
                    let last = scn.calls.len() - 1;
                    scn.calls[last] = CallSpec::Solve { timeout_ns: t, stalls: vec![] };
                } else {
                    match rng.below(8) {
                        0 => {
                            let last = scn.calls.len() - 1;
                            scn.calls[last] = CallSpec::Solve { timeout_ns: 0, stalls: vec![Stall { at: Phase::Sample, nth: 50, ns: STALL_NS }] };
                            scn.params.insert("zero_timeout".into(), 1.0);
                        }
                        1 => {
                            // huge limit, ended by a stall
                            let last = scn.calls.len() - 1;
                            scn.calls[last] = CallSpec::Solve {
                                timeout_ns: u64::MAX / 4,
                                stalls: vec![Stall { at: Phase::Sample, nth: 1 + rng.below(o.max_iters), ns: u64::MAX / 2 }],
                            };
                        }
                        2 | 3 => {
                            // a second (and third) solve on the kept tree
                            let its = 1 + rng.below(o.max_iters);
                            let (c, _) = gen::gen_solve(&mut rng, &mut scn.clock, its);
                            scn.calls.push(c);
                            if scn.problems[0].goal.sampler == GoalSampler::Planner {
                                scn.problems[0].goal.sampler = GoalSampler::Harness;
                            }
                        }
                        _ => {}
                    }
                }
            }
            _ => {}
        }
        scn
    }

    fn evaluate(&self, scn: &Scenario) -> Report {
        let mut rep = Report::default();
        let out = run(scn, &RunOpts::default());
        rep.absorb(&out);
        if let Some(e) = &out.build_error {
            rep.violations.push(viol("C00", "harness/build_error".into(), e.clone()));
            return rep;
        }
        let ev = Eval::new(scn, &out);
        let mut v = vec![];
        let solves = ev.solve_calls();
        if solves.len() > 1 {
            rep.probe("second_solve");
        }
        if scn.calls.iter().filter(|c| matches!(c, CallSpec::Setup { .. } | CallSpec::SetProblem { .. })).count() > 1 {
            rep.probe("resetup");
        }
        for (k, ci) in solves.iter().enumerate() {
            let call = &out.calls[*ci];
            if let Res::Path(p) = &call.res {
                rep.probe("path_returned");
                if k > 0 {
                    rep.probe("path_from_later_solve");
                }
                if let Some(Snap::Connect(a, b)) = &call.snap {
                    if let (Some(last), Some(root)) = (p.last(), b.first()) {
                        if !crate::spaces::bits_eq(last, &root.0) {
                            rep.probe("connect_direct");
                        } else if a.len() <= b.len() {
                            rep.probe("connect_via_start_growth");
                        } else {
                            rep.probe("connect_via_goal_growth");
                        }
                    }
                }
            }
            if let Res::Panic(m) = &call.res {
                rep.probe("planner_panic_noted");
                let _ = m;
            }
            let nt = match self.id {
                "C01" => {
                    if scn.param("start_invalid") == Some(1.0) {
                        rep.probe("start_invalid");
                    }
                    ev.c01(*ci, &mut v)
                }
                "C02" => ev.c02(*ci, &mut v),
                "C03" => ev.c03(*ci, &mut v),
                "C04" => ev.c04(*ci, &mut v),
                "C05" => ev.c05(*ci, &mut v),
                _ => false,
            };
            rep.nontrivial |= nt;
        }
        if self.id == "C06" {
            let sealed = scn.param("sealed") == Some(1.0);
            if scn.param("zero_timeout") == Some(1.0) {
                rep.probe("zero_timeout");
            }
            for ci in 0..out.calls.len() {
                let call = &out.calls[ci];
                if !matches!(scn.calls[ci], CallSpec::Solve { .. } | CallSpec::Construct { .. }) {
                    continue;
                }
                if let Some(kind) = ev.c06_overrun(ci, &mut v) {
                    rep.probe(kind);
                    rep.fault(kind);
                    rep.nontrivial = true;
                }
                if let Res::Abort(m) = &call.res {
                    v.push(viol(
                        "C06",
                        format!("C06/hang/{}/{}", ev.pk(), scn.family),
                        format!("{} did not return: {m}", ev.pk()),
                    ));
                }
                if sealed && matches!(scn.calls[ci], CallSpec::Solve { .. }) {
                    rep.probe("sealed_runs");
                    rep.nontrivial = true;
                    if let Res::Path(p) = &call.res {
                        v.push(viol(
                            "C06",
                            format!("C06/false_success/{}/{}", ev.pk(), scn.family),
                            format!(
                                "{} returned Ok(path[{}]) in a world where the goal is provably unreachable at the space's resolution ({})",
                                ev.pk(),
                                p.len(),
                                scn.family
                            ),
                        ));
                    }
                }
            }
        }
        let _ = Ev::Call(0);
        rep.violations = v.into_iter().filter(|x| x.property == self.id).collect();
        rep
    }
}
