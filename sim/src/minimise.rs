//! Scenario minimisation: apply edits while the same violation signature persists.

use crate::runner::{Check, Report};
use crate::sim::{run, Ev, RunOpts};
use crate::spec::*;

fn still(check: &dyn Check, scn: &Scenario, sig: &str, budget: &mut u32, work: &mut u64) -> Option<Report> {
    // besides the deterministic work budget, a CPU-time budget (seam events are cheap or dear
    // depending on the tree size behind them): it only decides how small the replay file gets,
    // never a verdict
    if *budget == 0 || *work == 0 || crate::runner::cpu_deadline_passed() {
        *budget = 0;
        return None;
    }
    *budget -= 1;
    let _g = crate::runner::watch(scn);
    let rep = check.evaluate(scn);
    *work = work.saturating_sub(rep.events.max(1));
    if rep.violations.iter().any(|v| v.sig == sig) {
        Some(rep)
    } else {
        None
    }
}

fn budgets(scn: &Scenario) -> Vec<(usize, usize, u64)> {
    // (call index, stall index, nth) for Sample-phase stalls = iteration budgets
    let mut v = vec![];
    for (ci, c) in scn.calls.iter().enumerate() {
        if let CallSpec::Solve { stalls, .. } | CallSpec::Construct { stalls } = c {
            for (si, s) in stalls.iter().enumerate() {
                if s.at == Phase::Sample {
                    v.push((ci, si, s.nth));
                }
            }
        }
    }
    v
}

fn set_budget(scn: &mut Scenario, ci: usize, si: usize, nth: u64) {
    if let CallSpec::Solve { stalls, .. } | CallSpec::Construct { stalls } = &mut scn.calls[ci] {
        stalls[si].nth = nth;
    }
}

/// `work`: remaining budget of seam events the candidate runs may execute (deterministic bound
/// on the cost of minimisation; the first evaluation is always performed).
pub fn minimise(check: &dyn Check, scn: &Scenario, sig: &str, work: &mut u64) -> (Scenario, Report) {
    let mut budget: u32 = 250;
    let mut best = scn.clone();
    *work = (*work).max(1);
    let mut best_rep = match still(check, &best, sig, &mut budget, work) {
        Some(r) => r,
        None => {
            // not reproducible from the scenario alone (entropy-dependent): keep as is
            let _g = crate::runner::watch(&best);
            return (best.clone(), check.evaluate(&best));
        }
    };
    macro_rules! attempt {
        ($cand:expr) => {{
            let cand: Scenario = $cand;
            if cand != best {
                if let Some(r) = still(check, &cand, sig, &mut budget, work) {
                    best = cand;
                    best_rep = r;
                    true
                } else {
                    false
                }
            } else {
                false
            }
        }};
    }

    // 1. explicit script of the uniform samples actually delivered (single-run scenarios)
    if best.sampling.script.is_empty() {
        let out = run(&best, &RunOpts::default());
        let script: Vec<St> = out
            .log
            .iter()
            .filter_map(|e| match e {
                Ev::SU(Some(s)) => Some(s.clone()),
                _ => None,
            })
            .collect();
        if !script.is_empty() && script.len() <= 400 {
            let mut c = best.clone();
            c.sampling.script = script;
            attempt!(c);
        }
    }
    // 2. simplify the clock
    {
        let mut c = best.clone();
        c.clock.cost_valid.clear();
        c.clock.cost_sample.clear();
        c.clock.cost_goal.clear();
        attempt!(c);
    }
    // 3. shrink iteration budgets (binary, then linear)
    for (ci, si, nth) in budgets(&best) {
        let (mut lo, mut hi) = (1u64, nth);
        while lo < hi && budget > 0 {
            let mid = (lo + hi) / 2;
            let mut c = best.clone();
            set_budget(&mut c, ci, si, mid);
            if attempt!(c) {
                hi = mid;
            } else {
                lo = mid + 1;
            }
        }
    }
    // 4. drop API calls, obstacles, script entries, faults — one at a time, to a fixpoint
    let mut progress = true;
    while progress && budget > 0 {
        progress = false;
        let mut i = 0;
        while i < best.calls.len() && best.calls.len() > 1 {
            let mut c = best.clone();
            c.calls.remove(i);
            if attempt!(c) {
                progress = true;
            } else {
                i += 1;
            }
        }
        for w in 0..best.worlds.len() {
            let mut i = 0;
            while i < best.worlds[w].obstacles.len() {
                let mut c = best.clone();
                c.worlds[w].obstacles.remove(i);
                if attempt!(c) {
                    progress = true;
                } else {
                    i += 1;
                }
            }
        }
        let mut i = 0;
        while i < best.faults.len() {
            let mut c = best.clone();
            c.faults.remove(i);
            if attempt!(c) {
                progress = true;
            } else {
                i += 1;
            }
        }
        // script: try truncation first, then single removals
        if !best.sampling.script.is_empty() {
            let mut keep = best.sampling.script.len();
            while keep > 0 && budget > 0 {
                let mut c = best.clone();
                c.sampling.script.truncate(keep / 2);
                if attempt!(c) {
                    keep /= 2;
                    progress = true;
                } else {
                    break;
                }
            }
            let mut i = 0;
            while i < best.sampling.script.len() && best.sampling.script.len() <= 24 && budget > 0 {
                let mut c = best.clone();
                c.sampling.script.remove(i);
                if attempt!(c) {
                    progress = true;
                } else {
                    i += 1;
                }
            }
        }
    }
    // 5. parameter defaults
    {
        let mut c = best.clone();
        c.clock.tick_ns = 1000;
        attempt!(c);
        let mut c = best.clone();
        c.planner.seed = Some(0);
        attempt!(c);
        let mut c = best.clone();
        for p in &mut c.problems {
            p.goal.sampler = GoalSampler::Fixed;
        }
        attempt!(c);
    }
    (best, best_rep)
}
