//! The six real oxmpl state spaces behind one harness interface.
//!
//! `Raw` ties an oxmpl space type to the harness's flat state encoding (`Vec<f64>`, compared by
//! bit pattern). `Geo` is the object-safe view the generators and oracles use; every method is
//! the *real* space primitive (`distance`, `interpolate`, `satisfies_bounds`, ...), reached by
//! decoding the flat state.

use std::any::Any;
use std::f64::consts::PI;
use std::ops::Deref;

use oxmpl::base::space::{
    AnyStateSpace, CompoundStateSpace, RealVectorStateSpace, SE2StateSpace, SE3StateSpace,
    SO2StateSpace, SO3StateSpace, StateSpace,
};
use oxmpl::base::state::{
    CompoundState, RealVectorState, SE2State, SE3State, SO2State, SO3State, State,
};

use crate::prng::Xo;
use crate::spec::{SpaceSpec, St};

#[derive(Clone, Copy, Debug, PartialEq)]
pub enum Comp {
    RV(usize),
    SO2,
    SO3,
}
impl Comp {
    pub fn width(&self) -> usize {
        match self {
            Comp::RV(n) => *n,
            Comp::SO2 => 1,
            Comp::SO3 => 4,
        }
    }
}

pub fn layout(spec: &SpaceSpec) -> Vec<Comp> {
    match spec {
        SpaceSpec::RV { dim, .. } => vec![Comp::RV(*dim)],
        SpaceSpec::SO2 { .. } => vec![Comp::SO2],
        SpaceSpec::SO3 { .. } => vec![Comp::SO3],
        SpaceSpec::Compound { parts, .. } => parts.iter().flat_map(layout).collect(),
        SpaceSpec::SE2 { .. } => vec![Comp::RV(2), Comp::SO2],
        SpaceSpec::SE3 { .. } => vec![Comp::RV(3), Comp::SO3],
    }
}

/// Offset of the `k`-th component in the flat encoding.
pub fn comp_offset(lay: &[Comp], k: usize) -> usize {
    lay[..k].iter().map(|c| c.width()).sum()
}

/// The harness's own unweighted metric on one component (used by component obstacles and
/// component goal conditions; deliberately independent of the library's `distance`).
pub fn comp_dist(c: &Comp, a: &[f64], b: &[f64]) -> f64 {
    match c {
        Comp::RV(n) => (0..*n).map(|i| (a[i] - b[i]) * (a[i] - b[i])).sum::<f64>().sqrt(),
        Comp::SO2 => ((a[0] - b[0] + PI).rem_euclid(2.0 * PI) - PI).abs(),
        Comp::SO3 => {
            let dot = (a[0] * b[0] + a[1] * b[1] + a[2] * b[2] + a[3] * b[3]).abs();
            2.0 * dot.min(1.0).acos()
        }
    }
}

/// The harness's own implementation of the space metric on flat states: the component metric
/// for single-component spaces, sqrt(sum (w_k d_k)^2) otherwise. Written independently of the
/// library (C09 / C13 state the law); used by worlds and goals flagged `harness_metric`.
#[derive(Clone, Debug)]
pub struct HMetric {
    pub lay: Vec<Comp>,
    pub w: Vec<f64>,
}
impl HMetric {
    pub fn new(spec: &SpaceSpec) -> Self {
        HMetric { lay: layout(spec), w: comp_weights(spec) }
    }
    pub fn d(&self, a: &[f64], b: &[f64]) -> f64 {
        if self.lay.len() == 1 && !(self.w[0] != 1.0) {
            return comp_dist(&self.lay[0], a, b);
        }
        let mut off = 0;
        let mut sum = 0.0;
        for (c, w) in self.lay.iter().zip(&self.w) {
            let n = c.width();
            let x = comp_dist(c, &a[off..off + n], &b[off..off + n]) * w;
            sum += x * x;
            off += n;
        }
        sum.sqrt()
    }
}

/// The harness's own interpolation on flat states, component by component whatever the weights
/// (C13): linear for R^n, the shorter arc for SO(2), spherical-linear for SO(3). None when the
/// shortest path is not unique to within rounding (SO(2) end points half a turn apart, rotations
/// 180 degrees apart): either way round is then "the" segment.
pub fn harness_interp(spec: &SpaceSpec, a: &[f64], b: &[f64], t: f64) -> Option<St> {
    let mut out = Vec::with_capacity(a.len());
    let mut off = 0;
    for c in layout(spec) {
        let n = c.width();
        let (x, y) = (&a[off..off + n], &b[off..off + n]);
        match c {
            Comp::RV(_) => out.extend(x.iter().zip(y).map(|(p, q)| p + (q - p) * t)),
            Comp::SO2 => {
                let d = (y[0] - x[0] + PI).rem_euclid(2.0 * PI) - PI;
                if (d.abs() - PI).abs() < 1e-6 {
                    return None;
                }
                out.push((x[0] + d * t + PI).rem_euclid(2.0 * PI) - PI);
            }
            Comp::SO3 => {
                let mut dot = x[0] * y[0] + x[1] * y[1] + x[2] * y[2] + x[3] * y[3];
                let sg = if dot < 0.0 { -1.0 } else { 1.0 };
                dot *= sg;
                if dot < 1e-6 {
                    return None;
                }
                let th = dot.min(1.0).acos();
                let (s0, s1) = if th < 1e-6 { (1.0 - t, t) } else { (((1.0 - t) * th).sin() / th.sin(), (t * th).sin() / th.sin()) };
                let q: Vec<f64> = (0..4).map(|i| x[i] * s0 + y[i] * sg * s1).collect();
                let nrm = q.iter().map(|v| v * v).sum::<f64>().sqrt();
                out.extend(q.iter().map(|v| v / nrm));
            }
        }
        off += n;
    }
    Some(out)
}

/// The motion-check resolution ("longest valid segment length") the documented law gives for a
/// space specification, computed by the harness itself: fraction x maximum extent for R^n
/// (diagonal of the box), SO(2) (pi) and SO(3) (pi/2); sqrt(sum (w_k L_k)^2) for compound, SE(2)
/// and SE(3). The fraction setters keep (0,1], clamp above 1 to 1 and ignore non-positive values
/// (default 0.05).
pub fn harness_lvs(spec: &SpaceSpec) -> f64 {
    let eff = |f: f64| if f > 0.0 && f <= 1.0 { f } else if f > 1.0 { 1.0 } else { 0.05 };
    let diag = |b: &[(f64, f64)]| -> f64 {
        if b.iter().any(|(l, h)| !l.is_finite() || !h.is_finite()) {
            1.0
        } else {
            b.iter().map(|(l, h)| (h - l) * (h - l)).sum::<f64>().sqrt()
        }
    };
    match spec {
        SpaceSpec::RV { dim, bounds, frac } => match bounds {
            Some(b) => diag(b) * eff(*frac),
            None => {
                let _ = dim;
                1.0 * eff(*frac)
            }
        },
        SpaceSpec::SO2 { frac, .. } => PI * eff(*frac),
        SpaceSpec::SO3 { frac, .. } => 0.5 * PI * eff(*frac),
        SpaceSpec::Compound { parts, weights } => parts.iter().zip(weights).map(|(p, w)| (harness_lvs(p) * w) * (harness_lvs(p) * w)).sum::<f64>().sqrt(),
        SpaceSpec::SE2 { weight, bounds, frac_t, frac_r, native } => {
            let (ft, fr) = if *native { (0.05, 0.05) } else { (eff(*frac_t), eff(*frac_r)) };
            let (a, b) = (diag(&bounds[..2.min(bounds.len())]) * ft, PI * fr * weight);
            (a * a + b * b).sqrt()
        }
        SpaceSpec::SE3 { weight, bounds, frac_t, frac_r, native, .. } => {
            let (ft, fr) = if *native { (0.05, 0.05) } else { (eff(*frac_t), eff(*frac_r)) };
            let (a, b) = (diag(bounds) * ft, 0.5 * PI * fr * weight);
            (a * a + b * b).sqrt()
        }
    }
}

/// Weight of every layout component in the space metric (1 for non-compound spaces).
pub fn comp_weights(spec: &SpaceSpec) -> Vec<f64> {
    match spec {
        SpaceSpec::Compound { parts, weights } => parts.iter().zip(weights).flat_map(|(p, w)| layout(p).iter().map(|_| *w).collect::<Vec<_>>()).collect(),
        SpaceSpec::SE2 { weight, .. } | SpaceSpec::SE3 { weight, .. } => vec![1.0, *weight],
        _ => vec![1.0],
    }
}

pub fn width(spec: &SpaceSpec) -> usize {
    layout(spec).iter().map(|c| c.width()).sum()
}

pub fn has_so3(spec: &SpaceSpec) -> bool {
    layout(spec).iter().any(|c| matches!(c, Comp::SO3))
}

/// max(1, largest metric weight of an SO(3) component)
pub fn so3_weight_scale(spec: &SpaceSpec) -> f64 {
    let lay = layout(spec);
    let ws = comp_weights(spec);
    let mut m: f64 = 1.0;
    for (c, w) in lay.iter().zip(ws) {
        if matches!(c, Comp::SO3) && w.is_finite() {
            m = m.max(w);
        }
    }
    m
}

pub fn kind_name(spec: &SpaceSpec) -> &'static str {
    match spec {
        SpaceSpec::RV { .. } => "RV",
        SpaceSpec::SO2 { .. } => "SO2",
        SpaceSpec::SO3 { .. } => "SO3",
        SpaceSpec::Compound { .. } => "Compound",
        SpaceSpec::SE2 { .. } => "SE2",
        SpaceSpec::SE3 { .. } => "SE3",
    }
}

fn build_rv(dim: usize, bounds: &Option<Vec<(f64, f64)>>, frac: f64) -> Result<RealVectorStateSpace, String> {
    let mut s = RealVectorStateSpace::new(dim, bounds.clone()).map_err(|e| format!("{e}"))?;
    s.set_longest_valid_segment_fraction(frac);
    Ok(s)
}
fn build_so2(bounds: &Option<(f64, f64)>, frac: f64) -> Result<SO2StateSpace, String> {
    let mut s = SO2StateSpace::new(*bounds).map_err(|e| format!("{e}"))?;
    s.set_longest_valid_segment_fraction(frac);
    Ok(s)
}
fn quat(q: &[f64; 4]) -> SO3State {
    SO3State::new(q[0], q[1], q[2], q[3])
}
fn build_so3(bounds: &Option<([f64; 4], f64)>, frac: f64) -> Result<SO3StateSpace, String> {
    let b = bounds.as_ref().map(|(c, a)| (quat(c), *a));
    let mut s = SO3StateSpace::new(b).map_err(|e| format!("{e}"))?;
    s.set_longest_valid_segment_fraction(frac);
    Ok(s)
}
fn build_part(p: &SpaceSpec) -> Result<Box<dyn AnyStateSpace>, String> {
    Ok(match p {
        SpaceSpec::RV { dim, bounds, frac } => Box::new(build_rv(*dim, bounds, *frac)?),
        SpaceSpec::SO2 { bounds, frac } => Box::new(build_so2(bounds, *frac)?),
        SpaceSpec::SO3 { bounds, frac } => Box::new(build_so3(bounds, *frac)?),
        _ => return Err("compound parts must be RV/SO2/SO3".into()),
    })
}

pub trait Raw: StateSpace<StateType: Clone> + Clone + 'static {
    fn build(spec: &SpaceSpec) -> Result<Self, String>;
    fn enc(s: &Self::StateType, out: &mut Vec<f64>);
    fn dec(lay: &[Comp], v: &[f64]) -> Self::StateType;
}

fn enc_dyn(c: &dyn State, out: &mut Vec<f64>) {
    let a: &dyn Any = c;
    if let Some(r) = a.downcast_ref::<RealVectorState>() {
        out.extend_from_slice(&r.values);
    } else if let Some(r) = a.downcast_ref::<SO2State>() {
        out.push(r.value);
    } else if let Some(r) = a.downcast_ref::<SO3State>() {
        out.extend_from_slice(&[r.x, r.y, r.z, r.w]);
    } else if let Some(r) = a.downcast_ref::<CompoundState>() {
        for c in &r.components {
            enc_dyn(c.deref(), out);
        }
    } else {
        panic!("harness: unknown component state type");
    }
}

fn dec_compound(lay: &[Comp], v: &[f64]) -> CompoundState {
    let mut comps: Vec<Box<dyn State>> = Vec::with_capacity(lay.len());
    let mut o = 0;
    for c in lay {
        match c {
            Comp::RV(n) => {
                comps.push(Box::new(RealVectorState { values: v[o..o + n].to_vec() }));
                o += n;
            }
            Comp::SO2 => {
                comps.push(Box::new(SO2State { value: v[o] }));
                o += 1;
            }
            Comp::SO3 => {
                comps.push(Box::new(SO3State { x: v[o], y: v[o + 1], z: v[o + 2], w: v[o + 3] }));
                o += 4;
            }
        }
    }
    CompoundState { components: comps }
}

impl Raw for RealVectorStateSpace {
    fn build(spec: &SpaceSpec) -> Result<Self, String> {
        match spec {
            SpaceSpec::RV { dim, bounds, frac } => build_rv(*dim, bounds, *frac),
            _ => Err("spec/type mismatch".into()),
        }
    }
    fn enc(s: &RealVectorState, out: &mut Vec<f64>) {
        out.extend_from_slice(&s.values)
    }
    fn dec(_lay: &[Comp], v: &[f64]) -> RealVectorState {
        RealVectorState { values: v.to_vec() }
    }
}
impl Raw for SO2StateSpace {
    fn build(spec: &SpaceSpec) -> Result<Self, String> {
        match spec {
            SpaceSpec::SO2 { bounds, frac } => build_so2(bounds, *frac),
            _ => Err("spec/type mismatch".into()),
        }
    }
    fn enc(s: &SO2State, out: &mut Vec<f64>) {
        out.push(s.value)
    }
    fn dec(_lay: &[Comp], v: &[f64]) -> SO2State {
        SO2State { value: v[0] }
    }
}
impl Raw for SO3StateSpace {
    fn build(spec: &SpaceSpec) -> Result<Self, String> {
        match spec {
            SpaceSpec::SO3 { bounds, frac } => build_so3(bounds, *frac),
            _ => Err("spec/type mismatch".into()),
        }
    }
    fn enc(s: &SO3State, out: &mut Vec<f64>) {
        out.extend_from_slice(&[s.x, s.y, s.z, s.w])
    }
    fn dec(_lay: &[Comp], v: &[f64]) -> SO3State {
        SO3State { x: v[0], y: v[1], z: v[2], w: v[3] }
    }
}
impl Raw for CompoundStateSpace {
    fn build(spec: &SpaceSpec) -> Result<Self, String> {
        match spec {
            SpaceSpec::Compound { parts, weights } => {
                let mut subs = Vec::new();
                for p in parts {
                    subs.push(build_part(p)?);
                }
                if subs.len() != weights.len() {
                    return Err("weights/parts mismatch".into());
                }
                Ok(CompoundStateSpace::new(subs, weights.clone()))
            }
            _ => Err("spec/type mismatch".into()),
        }
    }
    fn enc(s: &CompoundState, out: &mut Vec<f64>) {
        enc_dyn(s, out)
    }
    fn dec(lay: &[Comp], v: &[f64]) -> CompoundState {
        dec_compound(lay, v)
    }
}
impl Raw for SE2StateSpace {
    fn build(spec: &SpaceSpec) -> Result<Self, String> {
        match spec {
            SpaceSpec::SE2 { weight, bounds, frac_t, frac_r, native } => {
                if *native {
                    SE2StateSpace::new(*weight, Some(bounds.clone())).map_err(|e| format!("{e}"))
                } else {
                    if bounds.len() != 3 {
                        return Err("SE2 needs 3 bounds".into());
                    }
                    let r2 = build_rv(2, &Some(vec![bounds[0], bounds[1]]), *frac_t)?;
                    let so2 = build_so2(&Some(bounds[2]), *frac_r)?;
                    Ok(SE2StateSpace(CompoundStateSpace::new(
                        vec![Box::new(r2), Box::new(so2)],
                        vec![1.0, *weight],
                    )))
                }
            }
            _ => Err("spec/type mismatch".into()),
        }
    }
    fn enc(s: &SE2State, out: &mut Vec<f64>) {
        enc_dyn(&s.0, out)
    }
    fn dec(lay: &[Comp], v: &[f64]) -> SE2State {
        SE2State(dec_compound(lay, v))
    }
}
impl Raw for SE3StateSpace {
    fn build(spec: &SpaceSpec) -> Result<Self, String> {
        match spec {
            SpaceSpec::SE3 { weight, bounds, cone, frac_t, frac_r, native } => {
                if *native {
                    SE3StateSpace::new(*weight, Some(bounds.clone())).map_err(|e| format!("{e}"))
                } else {
                    if bounds.len() != 3 {
                        return Err("SE3 needs 3 bounds".into());
                    }
                    let r3 = build_rv(3, &Some(bounds.clone()), *frac_t)?;
                    let so3 = build_so3(cone, *frac_r)?;
                    Ok(SE3StateSpace(CompoundStateSpace::new(
                        vec![Box::new(r3), Box::new(so3)],
                        vec![1.0, *weight],
                    )))
                }
            }
            _ => Err("spec/type mismatch".into()),
        }
    }
    fn enc(s: &SE3State, out: &mut Vec<f64>) {
        enc_dyn(&s.0, out)
    }
    fn dec(lay: &[Comp], v: &[f64]) -> SE3State {
        SE3State(dec_compound(lay, v))
    }
}

pub fn enc_of<R: Raw>(s: &R::StateType) -> St {
    let mut v = Vec::with_capacity(8);
    R::enc(s, &mut v);
    v
}

pub fn bits_eq(a: &[f64], b: &[f64]) -> bool {
    a.len() == b.len() && a.iter().zip(b).all(|(x, y)| x.to_bits() == y.to_bits())
}

/// Harness-side description of the bounds, per flat coordinate group, used by the C04 oracle's
/// own excess function (independent of `satisfies_bounds`).
#[derive(Clone, Debug)]
pub enum BoundPart {
    Box(Vec<(f64, f64)>),
    Arc(f64, f64),
    Cone([f64; 4], f64),
}

pub fn bound_parts(spec: &SpaceSpec) -> Vec<BoundPart> {
    match spec {
        SpaceSpec::RV { dim, bounds, .. } => vec![BoundPart::Box(
            bounds.clone().unwrap_or(vec![(f64::NEG_INFINITY, f64::INFINITY); *dim]),
        )],
        SpaceSpec::SO2 { bounds, .. } => {
            let (lo, hi) = bounds.unwrap_or((-PI, PI));
            vec![BoundPart::Arc(lo.max(-PI), hi.min(PI))]
        }
        SpaceSpec::SO3 { bounds, .. } => {
            let (c, a) = bounds.unwrap_or(([0.0, 0.0, 0.0, 1.0], PI));
            vec![BoundPart::Cone(c, a.min(PI))]
        }
        SpaceSpec::Compound { parts, .. } => parts.iter().flat_map(bound_parts).collect(),
        SpaceSpec::SE2 { bounds, .. } => vec![
            BoundPart::Box(vec![bounds[0], bounds[1]]),
            BoundPart::Arc(bounds[2].0.max(-PI), bounds[2].1.min(PI)),
        ],
        SpaceSpec::SE3 { bounds, cone, native, .. } => {
            let (c, a) = if *native { ([0.0, 0.0, 0.0, 1.0], PI) } else { cone.unwrap_or(([0.0, 0.0, 0.0, 1.0], PI)) };
            vec![BoundPart::Box(bounds.clone()), BoundPart::Cone(c, a.min(PI))]
        }
    }
}

/// A state in the middle of the bounds (box centre, arc midpoint, normalised cone centre): where
/// the harness places things when the library's own sampler refuses to deliver.
pub fn centre_state(spec: &SpaceSpec) -> St {
    let mut out = vec![];
    for p in bound_parts(spec) {
        match p {
            BoundPart::Box(b) => out.extend(b.iter().map(|(lo, hi)| if lo.is_finite() && hi.is_finite() { 0.5 * (lo + hi) } else { 0.0 })),
            BoundPart::Arc(lo, hi) => out.push(0.5 * (lo + hi)),
            BoundPart::Cone(c, _) => {
                let n = c.iter().map(|x| x * x).sum::<f64>().sqrt();
                if n > 0.0 {
                    out.extend(c.iter().map(|x| x / n));
                } else {
                    out.extend([0.0, 0.0, 0.0, 1.0]);
                }
            }
        }
    }
    out
}

/// How far outside the bounds a flat state is (0 when inside), and which kind of bound it
/// leaves ("box", "arc", "cone").
pub fn bounds_excess(spec: &SpaceSpec, v: &[f64]) -> (f64, &'static str) {
    let mut worst = (0.0, "none");
    let mut o = 0;
    for p in bound_parts(spec) {
        match p {
            BoundPart::Box(b) => {
                for (i, (lo, hi)) in b.iter().enumerate() {
                    let x = v[o + i];
                    let e = (lo - x).max(x - hi).max(0.0);
                    if e > worst.0 || x.is_nan() {
                        worst = (if x.is_nan() { f64::INFINITY } else { e }, "box");
                    }
                }
                o += b.len();
            }
            BoundPart::Arc(lo, hi) => {
                let x = (v[o] + PI).rem_euclid(2.0 * PI) - PI;
                // distance on the circle to the interval [lo,hi]
                let e = if x >= lo && x <= hi {
                    0.0
                } else {
                    let dl = ((x - lo + PI).rem_euclid(2.0 * PI) - PI).abs();
                    let dh = ((x - hi + PI).rem_euclid(2.0 * PI) - PI).abs();
                    dl.min(dh)
                };
                if e > worst.0 || x.is_nan() {
                    worst = (if x.is_nan() { f64::INFINITY } else { e }, "arc");
                }
                o += 1;
            }
            BoundPart::Cone(c, a) => {
                let dot = (c[0] * v[o] + c[1] * v[o + 1] + c[2] * v[o + 2] + c[3] * v[o + 3]).abs();
                let ang = 2.0 * dot.min(1.0).acos();
                let e = (ang - a).max(0.0);
                if e > worst.0 || ang.is_nan() {
                    worst = (if ang.is_nan() { f64::INFINITY } else { e }, "cone");
                }
                o += 4;
            }
        }
    }
    worst
}

/// Object-safe view of a space for generators and oracles.
pub trait Geo {
    fn spec(&self) -> &SpaceSpec;
    fn d(&self, a: &[f64], b: &[f64]) -> f64;
    fn interp(&self, a: &[f64], b: &[f64], t: f64) -> St;
    fn in_bounds(&self, a: &[f64]) -> bool;
    fn lvs(&self) -> f64;
    /// reference resolution for the oracles: the smaller of what the library reports and what
    /// the documented law gives (equal on a correct library; a library that reports a coarser
    /// resolution than the law does not loosen the oracle)
    fn lvs_ref(&self) -> f64 {
        let (a, b) = (self.lvs(), harness_lvs(self.spec()) * (1.0 + 1e-9));
        if b > 0.0 && b.is_finite() && b < a {
            b
        } else {
            a
        }
    }
    fn sample(&self, rng: &mut Xo) -> Option<St>;
    /// validity of a flat state in world `w` (same function the planner's checker evaluates)
    fn valid(&self, w: usize, a: &[f64]) -> bool;
    fn set_worlds(&mut self, worlds: &[crate::spec::WorldSpec]);
    /// relative / absolute tolerance for metric comparisons in this space. SO(3) distances are
    /// 2 acos(|dot|): near 0 they carry an absolute noise of about 2 sqrt(2 ulp) = 4e-8 rad, which
    /// a compound weight w > 1 multiplies, so the absolute part scales with the largest weight
    /// of an SO(3) component.
    fn eps(&self) -> (f64, f64) {
        if has_so3(self.spec()) {
            (2e-4, 1e-7 * so3_weight_scale(self.spec()))
        } else {
            (1e-9, 1e-9)
        }
    }
    /// |d(a,q)+d(q,b)-d(a,b)| small: q lies on the segment a→b
    fn on_segment(&self, a: &[f64], b: &[f64], q: &[f64], dab: f64) -> Option<f64> {
        let daq = self.d(a, q);
        let tol = if has_so3(self.spec()) { 1e-6 * so3_weight_scale(self.spec()) } else { 1e-9 } * (1.0 + dab);
        if daq > dab + tol {
            return None;
        }
        let dqb = self.d(q, b);
        if (daq + dqb - dab).abs() <= tol {
            Some(daq)
        } else {
            None
        }
    }
}

pub struct GeoImpl<R: Raw> {
    pub inner: R,
    pub spec: SpaceSpec,
    pub lay: Vec<Comp>,
    pub worlds: Vec<crate::world::TypedWorld<R>>,
}

impl<R: Raw> GeoImpl<R> {
    pub fn new(spec: &SpaceSpec) -> Result<Self, String> {
        Ok(GeoImpl { inner: R::build(spec)?, spec: spec.clone(), lay: layout(spec), worlds: Vec::new() })
    }
}

impl<R: Raw> Geo for GeoImpl<R> {
    fn spec(&self) -> &SpaceSpec {
        &self.spec
    }
    fn d(&self, a: &[f64], b: &[f64]) -> f64 {
        self.inner.distance(&R::dec(&self.lay, a), &R::dec(&self.lay, b))
    }
    fn interp(&self, a: &[f64], b: &[f64], t: f64) -> St {
        let sa = R::dec(&self.lay, a);
        let sb = R::dec(&self.lay, b);
        let mut out = sa.clone();
        self.inner.interpolate(&sa, &sb, t, &mut out);
        enc_of::<R>(&out)
    }
    fn in_bounds(&self, a: &[f64]) -> bool {
        self.inner.satisfies_bounds(&R::dec(&self.lay, a))
    }
    fn lvs(&self) -> f64 {
        self.inner.get_longest_valid_segment_length()
    }
    fn sample(&self, rng: &mut Xo) -> Option<St> {
        self.inner.sample_uniform(rng).ok().map(|s| enc_of::<R>(&s))
    }
    fn valid(&self, w: usize, a: &[f64]) -> bool {
        let s = R::dec(&self.lay, a);
        self.worlds[w].valid(&self.inner, &s)
    }
    fn set_worlds(&mut self, worlds: &[crate::spec::WorldSpec]) {
        self.worlds = worlds.iter().map(|w| crate::world::TypedWorld::<R>::new(&self.spec, w)).collect();
    }
}

pub fn geo_for(spec: &SpaceSpec) -> Result<Box<dyn Geo>, String> {
    Ok(match spec {
        SpaceSpec::RV { .. } => Box::new(GeoImpl::<RealVectorStateSpace>::new(spec)?),
        SpaceSpec::SO2 { .. } => Box::new(GeoImpl::<SO2StateSpace>::new(spec)?),
        SpaceSpec::SO3 { .. } => Box::new(GeoImpl::<SO3StateSpace>::new(spec)?),
        SpaceSpec::Compound { .. } => Box::new(GeoImpl::<CompoundStateSpace>::new(spec)?),
        SpaceSpec::SE2 { .. } => Box::new(GeoImpl::<SE2StateSpace>::new(spec)?),
        SpaceSpec::SE3 { .. } => Box::new(GeoImpl::<SE3StateSpace>::new(spec)?),
    })
}

/// Dispatches a generic function over the space type named by the spec.
#[macro_export]
macro_rules! with_raw {
    ($spec:expr, $f:ident ( $($arg:expr),* )) => {
        match $spec {
            $crate::spec::SpaceSpec::RV { .. } => $f::<oxmpl::base::space::RealVectorStateSpace>($($arg),*),
            $crate::spec::SpaceSpec::SO2 { .. } => $f::<oxmpl::base::space::SO2StateSpace>($($arg),*),
            $crate::spec::SpaceSpec::SO3 { .. } => $f::<oxmpl::base::space::SO3StateSpace>($($arg),*),
            $crate::spec::SpaceSpec::Compound { .. } => $f::<oxmpl::base::space::CompoundStateSpace>($($arg),*),
            $crate::spec::SpaceSpec::SE2 { .. } => $f::<oxmpl::base::space::SE2StateSpace>($($arg),*),
            $crate::spec::SpaceSpec::SE3 { .. } => $f::<oxmpl::base::space::SE3StateSpace>($($arg),*),
        }
    };
}
