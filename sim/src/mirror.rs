//! Rust side of the Python mirror (C19, C20): scenarios restricted to what the Python API can
//! express, executed through the Rust core as the reference, written as JSON lines for
//! `py/pysim.py`; plus the wrapper-constructor lattice.

use std::f64::consts::PI;
use std::io::Write;
use std::time::Duration;

use serde_json::{json, Value};

use oxmpl::base::error::PlanningError;
use oxmpl::base::space::{
    CompoundStateSpace, RealVectorStateSpace, SE2StateSpace, SE3StateSpace, SO2StateSpace, SO3StateSpace, StateSpace,
};
use oxmpl::base::state::{RealVectorState, SE2State, SE3State, SO2State, SO3State};

use crate::gen::{self, GenOpts};
use crate::prng::{mix, Xo};
use crate::sim::{run, ErrKind, Res, RunOpts};
use crate::spaces::{geo_for, layout, Comp};
use crate::spec::*;

fn canon_angle(v: f64) -> Option<f64> {
    // fixed point of SO2State::new's normalisation (the Python constructors apply it)
    let f = |x: f64| (x + PI).rem_euclid(2.0 * PI) - PI;
    let mut x = f(v);
    for _ in 0..8 {
        let y = f(x);
        if y.to_bits() == x.to_bits() {
            return Some(x);
        }
        x = y;
    }
    None
}

fn canon_state(spec: &SpaceSpec, s: &mut St) -> bool {
    let mut o = 0;
    for c in layout(spec) {
        match c {
            Comp::SO2 => match canon_angle(s[o]) {
                Some(v) => s[o] = v,
                None => return false,
            },
            _ => {}
        }
        o += c.width();
    }
    true
}

fn err_text(e: &ErrKind) -> String {
    match e {
        ErrKind::Timeout => PlanningError::Timeout,
        ErrKind::NoSolutionFound => PlanningError::NoSolutionFound,
        ErrKind::PlannerUninitialised => PlanningError::PlannerUninitialised,
        ErrKind::InvalidStartState => PlanningError::InvalidStartState,
        ErrKind::UnsampledStateSpace => PlanningError::UnsampledStateSpace,
    }
    .to_string()
}

pub fn result_json(scn: &Scenario) -> Value {
    let out = run(scn, &RunOpts { snapshots: false, ..Default::default() });
    let calls: Vec<Value> = out
        .calls
        .iter()
        .map(|c| match &c.res {
            Res::Unit | Res::Skipped => json!({"res": "ok"}),
            Res::Path(p) => json!({"res": "path", "path": p}),
            // `api_state`: decided by the API state alone (not by what was sampled)
            Res::Err(e) => json!({"res": "err", "text": err_text(e), "api_state": matches!(e, ErrKind::PlannerUninitialised | ErrKind::InvalidStartState | ErrKind::UnsampledStateSpace)}),
            Res::Panic(m) => json!({"res": "panic", "text": m}),
            Res::Abort(m) => json!({"res": "abort", "text": m}),
            Res::UserPanic => json!({"res": "user_panic"}),
        })
        .collect();
    if std::env::var("VERIF_DEBUG").is_ok() {
        let out2 = run(scn, &RunOpts::default());
        for c in &out2.calls {
            eprintln!("{} snap={:?}", c.res.short(), c.snap);
        }
        let kinds: String = out2.log.iter().map(|e| e.kind_byte() as char).collect();
        eprintln!("events: {kinds}");
    }
    json!({"calls": calls, "events": out.log.len(), "valid_queries": out.log.iter().filter(|e| matches!(e, crate::sim::Ev::Valid(..))).count()})
}

/// f32-second timeout -> nanoseconds exactly as the Python binding computes it
fn f32_secs_to_ns(secs: f64) -> u64 {
    Duration::from_secs_f32(secs as f32).as_nanos() as u64
}

pub fn mirror_scenario(prop: &str, seed: u64, index: u64) -> Option<Scenario> {
    let mut rng = Xo::new(mix(seed, prop, index));
    let kind = PlannerKind::ALL[(index % 4) as usize];
    let space_kinds = ["RV", "SO2", "SO3", "Compound", "SE2", "SE3"];
    let o = GenOpts {
        planner: Some(kind),
        space_kinds: vec![space_kinds[((index / 4) % 6) as usize]],
        families: if prop == "C20" { vec!["open", "balls"] } else { vec!["open", "balls", "balls", "shell_door", "thin_wall", "goal_overlap", "start_in_obstacle"] },
        max_iters: 150,
        min_frac: 0.05,
        goal_sampler: Some(GoalSampler::Fixed),
        library_metric: true,
        query_budget: 2e4,
        canonical_only: true,
        ..Default::default()
    };
    let mut scn = gen::base(&mut rng, prop, seed, index, &o);
    // A third of the rotation cones get a grossly non-unit centre (the stored quaternion scaled
    // by 1.25 or 2): the constructors do not normalise, every bounds primitive uses the centre
    // as stored, and the cone only gets larger (so start, goal and obstacles stay inside). Both
    // sides must plan in the same — odd — space.
    if prop == "C19" && rng.chance(0.33) {
        let k = *rng.pick(&[1.25, 2.0]);
        let scale = |b: &mut Option<([f64; 4], f64)>| {
            if let Some((c, _)) = b {
                for x in c.iter_mut() {
                    *x *= k;
                }
            }
        };
        match &mut scn.space {
            SpaceSpec::SO3 { bounds, .. } => scale(bounds),
            SpaceSpec::Compound { parts, .. } => {
                for p in parts.iter_mut() {
                    if let SpaceSpec::SO3 { bounds, .. } = p {
                        scale(bounds);
                    }
                }
            }
            _ => {}
        }
    }
    // only what the Python API can express
    match &mut scn.space {
        SpaceSpec::SE2 { native, frac_t, frac_r, .. } => {
            *native = true;
            *frac_t = 0.05;
            *frac_r = 0.05;
        }
        SpaceSpec::SE3 { native, frac_t, frac_r, cone, .. } => {
            *native = true;
            *frac_t = 0.05;
            *frac_r = 0.05;
            *cone = None;
        }
        _ => {}
    }
    // the resolution setters are part of the wrapped API: also give them out-of-range arguments
    // (the core clamps fractions above 1 to 1 and ignores non-positive ones)
    if rng.chance(0.2) {
        let odd = *rng.pick(&[1.5, 2.5, 1.0, 0.0, -1.0]);
        let set = |sp: &mut SpaceSpec| match sp {
            SpaceSpec::RV { frac, .. } | SpaceSpec::SO2 { frac, .. } | SpaceSpec::SO3 { frac, .. } => *frac = odd,
            _ => {}
        };
        match &mut scn.space {
            SpaceSpec::Compound { parts, .. } => {
                let i = rng.below(parts.len() as u64) as usize;
                set(&mut parts[i]);
            }
            other => set(other),
        }
        scn.params.insert("odd_fraction".into(), 1.0);
    }
    scn.clock = ClockSpec { tick_ns: 1_000_000, cost_valid: vec![], cost_sample: vec![], cost_goal: vec![] };
    let spec = scn.space.clone();
    for p in &mut scn.problems {
        for s in &mut p.starts {
            if !canon_state(&spec, s) {
                return None;
            }
        }
        if !canon_state(&spec, &mut p.goal.target) {
            return None;
        }
    }
    for w in &mut scn.worlds {
        for ob in &mut w.obstacles {
            let ok = match ob {
                Obstacle::Ball { c, .. } => canon_state(&spec, c),
                Obstacle::Shell { c, door, .. } => canon_state(&spec, c) && door.as_mut().map(|d| canon_state(&spec, &mut d.0)).unwrap_or(true),
                _ => true,
            };
            if !ok {
                return None;
            }
        }
    }
    // re-derive affordability after the space change, then express budgets as time limits
    let geo = geo_for(&scn.space).ok()?;
    let ext = scn.param("ext").unwrap_or(1.0);
    scn.planner.goal_bias = *rng.pick(&[0.05, 0.2, 0.5, 0.05, 0.2, 0.5, 0.0, 1.0]);
    scn.planner.max_distance = ext * rng.range(0.1, 0.4);
    scn.planner.search_radius = scn.planner.max_distance * rng.range(0.8, 2.0);
    scn.planner.connection_radius = ext * rng.range(0.2, 0.5);
    let iters = gen::affordable_iters_b(&scn.planner, geo.lvs(), ext, 20 + rng.below(130), 2e4);
    let secs = ((iters as f64) + 0.5) * 1e-3;
    scn.params.insert("solve_timeout_secs".into(), (secs as f32) as f64);
    let solve = CallSpec::Solve { timeout_ns: f32_secs_to_ns(secs), stalls: vec![] };
    let prm = kind == PlannerKind::PRM;
    if prm {
        scn.planner.prm_timeout_s = ((iters as f64) + 0.5) * 1e-3;
    }
    // one `setup` (+ roadmap construction) with problem `p`'s callback, as a call list
    let setup = |p: usize| -> Vec<CallSpec> {
        if prm {
            vec![CallSpec::Setup { problem: p }, CallSpec::Construct { stalls: vec![] }]
        } else {
            vec![CallSpec::Setup { problem: p }]
        }
    };
    scn.calls = setup(0);
    scn.calls.push(solve.clone());
    // a start marginally outside a box bound: the core roots its tree at the start as given
    if prop == "C19" && rng.chance(0.06) {
        let b: Option<Vec<(f64, f64)>> = match &scn.space {
            SpaceSpec::RV { bounds: Some(b), .. } => Some(b.clone()),
            SpaceSpec::SE2 { bounds, .. } => Some(bounds[..2].to_vec()),
            SpaceSpec::SE3 { bounds, .. } => Some(bounds.clone()),
            _ => None,
        };
        if let Some(b) = b {
            let i = rng.below(b.len() as u64) as usize;
            let eps = (b[i].1 - b[i].0) * rng.range(1e-3, 5e-3);
            scn.problems[0].starts[0][i] = if rng.chance(0.5) { b[i].0 - eps } else { b[i].1 + eps };
            let mut g = geo_for(&scn.space).ok()?;
            g.set_worlds(&scn.worlds);
            if !g.valid(0, &scn.problems[0].starts[0]) {
                return None;
            }
            scn.params.insert("start_out_of_bounds".into(), 1.0);
        }
    }
    // Python only: the wrapper objects are mutated after the problem definition took its snapshot
    if prop == "C19" && rng.chance(0.15) {
        scn.params.insert("mutate_after_pd".into(), 1.0);
    }
    // a stateful goal sampler: the goal hands out a short list of goal configurations in turn
    // (both sides must call sample_goal equally often, in the same places)
    if prop == "C19" && rng.chance(0.2) {
        let g = geo_for(&scn.space).ok()?;
        let t = scn.problems[0].goal.target.clone();
        let r = scn.problems[0].goal.radius;
        let mut cyc = vec![t.clone()];
        for _ in 0..rng.usize_in(1, 3) {
            let dist = r * rng.range(0.2, 0.8);
            if let Some(mut c) = gen::point_at(&*g, &mut rng, &t, dist) {
                if canon_state(&spec, &mut c) && g.d(&t, &c) <= 0.9 * r {
                    cyc.push(c);
                }
            }
        }
        if cyc.len() > 1 {
            scn.problems[0].goal.sampler = GoalSampler::Cycle;
            scn.problems[0].goal.cycle = cyc;
        }
    }
    // a callback whose answer depends on its call history: the k-th validity query (counted over
    // the whole scenario) answers False whatever the state. Both sides must ask the same
    // questions in the same order for the results to agree.
    if prop == "C19" && rng.chance(0.2) {
        let k = 1 + rng.below(120);
        scn.faults.push(FaultSpec::ValidityFalseAt { at_call: k });
        scn.params.insert("validity_false_at".into(), k as f64);
    }
    // Python only: a validity callback that memoises per state OBJECT (and keeps the objects): on
    // a binding that hands every call its own copy of the state it is the plain callback
    if prop == "C19" && rng.chance(0.15) {
        scn.params.insert("identity_memo".into(), 1.0);
    }
    // seeds from the whole 64-bit range (a conversion through a double loses the low bits above 2^53)
    if prop == "C19" && rng.chance(0.25) {
        scn.planner.seed = Some(rng.u64() | (1 << 62) | 1);
    }
    // Python only: the component wrappers of a compound are mutated after the compound space was
    // built from them (it copied them) and before the problem definition is created
    if prop == "C19" && matches!(scn.space, SpaceSpec::Compound { .. }) && rng.chance(0.3) {
        scn.params.insert("mutate_components_after_compound".into(), 1.0);
    }
    // a start that coincides with the (fixed) goal sample: the core's path then repeats a state
    if prop == "C19" && rng.chance(0.06) {
        scn.problems[0].goal.target = scn.problems[0].starts[0].clone();
        scn.params.insert("start_is_goal_sample".into(), 1.0);
    }
    if prop == "C19" {
        // API histories the Python wrappers can express: solve again on the kept tree / roadmap,
        // setup again with ANOTHER callback (the problem definition is fixed at construction in
        // Python, so problem 1 = problem 0 checked against world 1 = world 0 plus one more ball)
        let h = rng.below(14);
        if h >= 6 {
            let mut w1 = scn.worlds[0].clone();
            let mut g2 = geo_for(&scn.space).ok()?;
            for _ in 0..20 {
                let Some(mut c) = g2.sample(&mut rng) else { break };
                if !canon_state(&spec, &mut c) {
                    continue;
                }
                let mut cand = scn.worlds[0].clone();
                cand.obstacles.push(Obstacle::Ball { c, r: rng.range(0.05, 0.25) * ext });
                g2.set_worlds(&[cand.clone()]);
                if g2.valid(0, &scn.problems[0].starts[0]) && g2.valid(0, &scn.problems[0].goal.target) {
                    w1 = cand;
                    break;
                }
            }
            scn.worlds.push(w1);
            let mut p1 = scn.problems[0].clone();
            p1.world = 1;
            scn.problems.push(p1);
            let mut calls: Vec<CallSpec> = vec![];
            match h {
                6 => {
                    calls.extend(setup(0));
                    calls.push(solve.clone());
                    calls.push(solve.clone());
                }
                7 => {
                    calls.push(CallSpec::Setup { problem: 0 });
                    calls.extend(setup(1));
                    calls.push(solve.clone());
                }
                8 => {
                    calls.extend(setup(1));
                    calls.push(solve.clone());
                    calls.extend(setup(0));
                    calls.push(solve.clone());
                }
                // setup again with the SAME problem (pysim then passes the identical callable):
                // the core starts over from the start state
                10 => {
                    calls.extend(setup(0));
                    calls.push(solve.clone());
                    calls.extend(setup(0));
                    calls.push(solve.clone());
                }
                11 => {
                    calls.extend(setup(0));
                    calls.push(solve.clone());
                    calls.push(solve.clone());
                    calls.extend(setup(0));
                    calls.push(solve.clone());
                    calls.extend(setup(0));
                }
                // (PRM) setup again WITHOUT constructing a roadmap: the query must report the
                // unsampled space, whatever an earlier query returned
                13 => {
                    calls.extend(setup(0));
                    calls.push(solve.clone());
                    calls.push(CallSpec::Setup { problem: 1 });
                    calls.push(solve.clone());
                    calls.extend(setup(0));
                    calls.push(solve.clone());
                }
                12 => {
                    calls.extend(setup(1));
                    calls.extend(setup(1));
                    calls.push(solve.clone());
                    calls.extend(setup(0));
                    calls.push(solve.clone());
                    calls.extend(setup(1));
                    calls.push(solve.clone());
                }
                _ => {
                    calls.extend(setup(0));
                    calls.push(solve.clone());
                    calls.extend(setup(1));
                    calls.push(solve.clone());
                }
            }
            scn.calls = calls;
            scn.params.insert("history".into(), h as f64);
        }
    }
    if prop == "C20" {
        // fault region: a ball between start and goal; world 1 = world 0 + that ball
        let (s, t) = (scn.problems[0].starts[0].clone(), scn.problems[0].goal.target.clone());
        let d = geo.d(&s, &t);
        // mostly between start and goal; sometimes ON the goal sample (RRT-Connect's goal root, the
        // state every goal-biased sample returns) or ON the start (the root no motion validates)
        let place = rng.below(10);
        let (mut c, r) = match place {
            0 => (t.clone(), (d * rng.range(0.02, 0.2)).min(0.9 * d)),
            1 => (s.clone(), (d * rng.range(0.02, 0.2)).min(0.9 * d)),
            _ => {
                let c = geo.interp(&s, &t, rng.range(0.3, 0.7));
                let r = (d * rng.range(0.1, 0.3)).min(0.9 * geo.d(&c, &s)).min(0.9 * (geo.d(&c, &t) - scn.problems[0].goal.radius).max(0.0));
                (c, r)
            }
        };
        if !canon_state(&spec, &mut c) {
            return None;
        }
        if !(r > 0.0) {
            return None;
        }
        scn.params.insert("fault_place".into(), place.min(2) as f64);
        // sometimes a second (and third) solve on the same planner object, or setup again (the
        // identical callable) and solve
        if rng.chance(0.25) {
            scn.calls.push(solve.clone());
            if rng.chance(0.3) {
                scn.calls.push(solve.clone());
            }
        } else if rng.chance(0.15) {
            scn.calls.extend(setup(0));
            scn.calls.push(solve.clone());
        }
        let mut w1 = scn.worlds[0].clone();
        w1.obstacles.push(Obstacle::Ball { c, r });
        scn.worlds.push(w1);
        scn.params.insert("fault_kind".into(), (index / 24 % 24) as f64);
        // k-th call faults for part of the scenarios (0 = region fault)
        let kth = if index % 3 == 0 { 1 + (index / 3) % 256 } else { 0 };
        scn.params.insert("fault_kth".into(), kth as f64);
        scn.params.insert("fault_target".into(), (index / 5 % 3) as f64); // 0,1 = validity callback, 2 = is_satisfied
        // half of the k-th-call faults of the goal predicate fall on exactly the call at which
        // the planner reaches the goal (pysim finds that call with a dry run)
        if kth > 0 && index / 5 % 3 == 2 && index % 2 == 0 {
            scn.params.insert("fault_at_goal_call".into(), 1.0);
        }
        // PRM, one scenario in seven: the validity callback fails on EVERY state (the roadmap
        // stays empty after dozens of consecutive failures) while a bystander planner, set up
        // earlier with a healthy callback on the same problem, waits to be queried afterwards
        if prm && index % 7 == 3 {
            scn.params.insert("fault_everywhere".into(), 1.0);
            scn.params.insert("bystander".into(), 1.0);
            scn.params.insert("fault_kth".into(), 0.0);
            scn.params.insert("fault_target".into(), 0.0);
            scn.params.remove("fault_at_goal_call");
        }
        // region faults of the goal predicate, a third of them: the failing method is installed
        // on the live goal object only AFTER the first query (the user rebinds `is_satisfied`),
        // and the planner is queried again
        if kth == 0 && index / 5 % 3 == 2 && index % 2 == 1 && scn.param("bystander").is_none() {
            let solves = scn.calls.iter().filter(|c| matches!(c, CallSpec::Solve { .. })).count();
            if solves < 2 {
                if rng.chance(0.5) {
                    scn.calls.extend(setup(0));
                }
                scn.calls.push(solve.clone());
            }
            scn.params.insert("goal_rebind".into(), 1.0);
        }
    }
    Some(scn)
}

pub fn gen_mirror(prop: &str, seed: u64, n: u64, path: &str) -> std::io::Result<u64> {
    let mut f = std::io::BufWriter::new(std::fs::File::create(path)?);
    let mut written = 0;
    let mut i = 0;
    while written < n && i < n * 3 {
        if let Some(scn) = mirror_scenario(prop, seed, i) {
            let rust = if prop == "C20" {
                // reference: the checker that simply rejects the fault region
                let mut s = scn.clone();
                s.problems[0].world = 1;
                result_json(&s)
            } else {
                result_json(&scn)
            };
            writeln!(f, "{}", json!({"scenario": scn, "rust": rust}))?;
            written += 1;
        }
        i += 1;
    }
    f.flush()?;
    Ok(written)
}

// ------------------------------------------------------------------------------------------
// wrapper-constructor lattice (C19, second clause)

fn lattice_f(rng: &mut Xo) -> f64 {
    *rng.pick(&[0.0, -0.0, 1.0, -1.0, 0.5, 2.5, -2.5, PI, -PI, 3.0 * PI, -7.0, 4.0, 5.0, 1e-9, 1e9, f64::from_bits(PI.to_bits() - 1)])
}

pub fn gen_wrapper_cases(seed: u64, n: u64, path: &str) -> std::io::Result<u64> {
    let mut f = std::io::BufWriter::new(std::fs::File::create(path)?);
    let errs = |e: Option<String>| -> Value { e.map(Value::from).unwrap_or(Value::Null) };
    for i in 0..n {
        let mut rng = Xo::new(mix(seed, "C19w", i));
        let case: Value = match i % 8 {
            0 => {
                // RealVectorStateSpace(dim, bounds)
                let dim = rng.usize_in(0, 3);
                let nb = if rng.chance(0.8) { dim } else { rng.usize_in(0, 4) };
                let bounds: Option<Vec<(f64, f64)>> = if rng.chance(0.85) { Some((0..nb).map(|_| (lattice_f(&mut rng), lattice_f(&mut rng))).collect()) } else { None };
                let r = RealVectorStateSpace::new(dim, bounds.clone());
                let mut exp = json!({"err": errs(r.as_ref().err().map(|e| e.to_string()))});
                if let Ok(sp) = &r {
                    exp["extent"] = json!(sp.get_maximum_extent());
                    if dim > 0 {
                        let a: Vec<f64> = (0..dim).map(|_| lattice_f(&mut rng)).collect();
                        let b: Vec<f64> = (0..dim).map(|_| lattice_f(&mut rng)).collect();
                        exp["distance"] = json!(sp.distance(&RealVectorState::new(a.clone()), &RealVectorState::new(b.clone())));
                        exp["a"] = json!(a);
                        exp["b"] = json!(b);
                    }
                }
                json!({"ctor": "RV", "dim": dim, "bounds": bounds, "expect": exp})
            }
            1 => {
                let bounds = if rng.chance(0.85) { Some((lattice_f(&mut rng), lattice_f(&mut rng))) } else { None };
                let r = SO2StateSpace::new(bounds);
                let mut exp = json!({"err": errs(r.as_ref().err().map(|e| e.to_string()))});
                if let Ok(sp) = &r {
                    let a = lattice_f(&mut rng);
                    let b = if rng.chance(0.2) { a } else { lattice_f(&mut rng) };
                    exp["extent"] = json!(sp.get_maximum_extent());
                    exp["distance"] = json!(sp.distance(&SO2State::new(a), &SO2State::new(b)));
                    exp["a"] = json!(a);
                    exp["b"] = json!(b);
                }
                json!({"ctor": "SO2", "bounds": bounds, "expect": exp})
            }
            2 => {
                let q = |rng: &mut Xo| [rng.range(-1.0, 1.0), rng.range(-1.0, 1.0), rng.range(-1.0, 1.0), rng.range(-1.0, 1.0)];
                let c = q(&mut rng);
                let ang = *rng.pick(&[-1.0, -1e-12, 0.0, 0.5, PI, 4.0, 1e9]);
                let bounds = if rng.chance(0.85) { Some((c, ang)) } else { None };
                let r = SO3StateSpace::new(bounds.map(|(c, a)| (SO3State::new(c[0], c[1], c[2], c[3]), a)));
                let mut exp = json!({"err": errs(r.as_ref().err().map(|e| e.to_string()))});
                if let Ok(sp) = &r {
                    let a = q(&mut rng);
                    // equal arguments too (non-unit quaternions have a non-zero self-distance)
                    let b = if rng.chance(0.3) { a } else { q(&mut rng) };
                    exp["extent"] = json!(sp.get_maximum_extent());
                    let d = sp.distance(&SO3State::new(a[0], a[1], a[2], a[3]), &SO3State::new(b[0], b[1], b[2], b[3]));
                    exp["distance"] = if d.is_finite() { json!(d) } else { json!("nan") };
                    exp["a"] = json!(a);
                    exp["b"] = json!(b);
                }
                json!({"ctor": "SO3", "bounds": bounds, "expect": exp})
            }
            3 => {
                let nb = if rng.chance(0.8) { 3 } else { rng.usize_in(0, 4) };
                let bounds: Option<Vec<(f64, f64)>> = if rng.chance(0.85) { Some((0..nb).map(|_| (lattice_f(&mut rng), lattice_f(&mut rng))).collect()) } else { None };
                let w = *rng.pick(&[0.0, 0.5, 1.0, 2.0]);
                let r = SE2StateSpace::new(w, bounds.clone());
                let mut exp = json!({"err": errs(r.as_ref().err().map(|e| e.to_string()))});
                if let Ok(sp) = &r {
                    let a = [lattice_f(&mut rng), lattice_f(&mut rng), lattice_f(&mut rng)];
                    let b = [lattice_f(&mut rng), lattice_f(&mut rng), lattice_f(&mut rng)];
                    exp["distance"] = json!(sp.distance(&SE2State::new(a[0], a[1], a[2]), &SE2State::new(b[0], b[1], b[2])));
                    exp["a"] = json!(a);
                    exp["b"] = json!(b);
                }
                json!({"ctor": "SE2", "weight": w, "bounds": bounds, "expect": exp})
            }
            4 => {
                let nb = if rng.chance(0.8) { 3 } else { rng.usize_in(0, 4) };
                let bounds: Option<Vec<(f64, f64)>> = if rng.chance(0.85) { Some((0..nb).map(|_| (lattice_f(&mut rng), lattice_f(&mut rng))).collect()) } else { None };
                let w = *rng.pick(&[0.0, 0.5, 1.0, 2.0]);
                let r = SE3StateSpace::new(w, bounds.clone());
                let mut exp = json!({"err": errs(r.as_ref().err().map(|e| e.to_string()))});
                if let Ok(sp) = &r {
                    let q = |rng: &mut Xo| [rng.range(-1.0, 1.0), rng.range(-1.0, 1.0), rng.range(-1.0, 1.0), rng.range(-1.0, 1.0)];
                    let (ta, tb) = ([lattice_f(&mut rng), lattice_f(&mut rng), lattice_f(&mut rng)], [lattice_f(&mut rng), lattice_f(&mut rng), lattice_f(&mut rng)]);
                    let qa = q(&mut rng);
                    let qb = if rng.chance(0.3) { qa } else { q(&mut rng) };
                    let d = sp.distance(
                        &SE3State::new(ta[0], ta[1], ta[2], SO3State::new(qa[0], qa[1], qa[2], qa[3])),
                        &SE3State::new(tb[0], tb[1], tb[2], SO3State::new(qb[0], qb[1], qb[2], qb[3])),
                    );
                    exp["distance"] = if d.is_finite() { json!(d) } else { json!("nan") };
                    exp["a"] = json!([ta, qa]);
                    exp["b"] = json!([tb, qb]);
                }
                json!({"ctor": "SE3", "weight": w, "bounds": bounds, "expect": exp})
            }
            5 => {
                // state canonicalisation
                let v = lattice_f(&mut rng) + if rng.chance(0.5) { rng.range(-10.0, 10.0) } else { 0.0 };
                let s = SO2State::new(v);
                json!({"ctor": "SO2State", "value": v, "expect": {"err": Value::Null, "stored": [s.value]}})
            }
            6 => {
                let (x, y, yaw) = (lattice_f(&mut rng), lattice_f(&mut rng), lattice_f(&mut rng) + rng.range(-10.0, 10.0));
                let s = SE2State::new(x, y, yaw);
                json!({"ctor": "SE2State", "args": [x, y, yaw], "expect": {"err": Value::Null, "stored": [s.get_x(), s.get_y(), s.get_yaw()]}})
            }
            _ => {
                // CompoundStateSpace: distance over [RV(1), SO2] with weights; mismatch -> ValueError
                let w: Vec<f64> = (0..if rng.chance(0.8) { 2 } else { rng.usize_in(0, 3) }).map(|_| *rng.pick(&[0.0, 0.5, 1.0, 10.0])).collect();
                let mut exp = json!({"err": if w.len() == 2 { Value::Null } else { json!("mismatch") }});
                let (a, b) = ([lattice_f(&mut rng), lattice_f(&mut rng)], [lattice_f(&mut rng), lattice_f(&mut rng)]);
                if w.len() == 2 {
                    let sp = CompoundStateSpace::new(
                        vec![Box::new(RealVectorStateSpace::new(1, Some(vec![(-10.0, 10.0)])).unwrap()), Box::new(SO2StateSpace::new(None).unwrap())],
                        w.clone(),
                    );
                    let mk = |v: [f64; 2]| oxmpl::base::state::CompoundState { components: vec![Box::new(RealVectorState::new(vec![v[0]])), Box::new(SO2State::new(v[1]))] };
                    exp["distance"] = json!(sp.distance(&mk(a), &mk(b)));
                }
                json!({"ctor": "Compound", "weights": w, "a": a, "b": b, "expect": exp})
            }
        };
        writeln!(f, "{case}")?;
    }
    f.flush()?;
    Ok(n)
}
