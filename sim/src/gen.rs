//! Scenario generators (swarm style: every run varies space, world, problem, planner, clock).
//! A generator draws from the harness PRNG only; after generation a run never draws again.

use std::collections::BTreeMap;
use std::f64::consts::PI;

use crate::prng::Xo;
use crate::spaces::{geo_for, kind_name, layout, width, Comp, Geo};
use crate::spec::*;

pub const FRACS: [f64; 8] = [1.0, 0.5, 0.05, 0.05, 0.05, 0.01, 0.01, 0.002];

#[derive(Clone, Debug, Default)]
pub struct GenOpts {
    /// obstacles and goals measure with the library's `distance` only
    pub library_metric: bool,
    pub planner: Option<PlannerKind>,
    pub families: Vec<&'static str>,
    pub space_kinds: Vec<&'static str>,
    /// iteration budget range for the solve call
    pub max_iters: u64,
    pub goal_sampler: Option<GoalSampler>,
    /// bounded angular spaces whose start/goal straddle the cut
    pub angular_bias: bool,
    /// keep motion-check resolution coarse enough that runs stay cheap
    pub min_frac: f64,
    /// worst-case number of validity queries a run may need (0 = default 4e5)
    pub query_budget: f64,
    /// never generate legal-but-non-canonical states (the Python constructors canonicalise)
    pub canonical_only: bool,
    /// the space must have a component the metric ignores (weight 0) next to one it does not
    pub zero_weight: bool,
}

fn unit_quat(rng: &mut Xo) -> [f64; 4] {
    loop {
        let q = [rng.range(-1.0, 1.0), rng.range(-1.0, 1.0), rng.range(-1.0, 1.0), rng.range(-1.0, 1.0)];
        let n2: f64 = q.iter().map(|x| x * x).sum();
        if n2 > 1e-3 && n2 < 1.0 {
            let n = n2.sqrt();
            return [q[0] / n, q[1] / n, q[2] / n, q[3] / n];
        }
    }
}

fn pick_frac(rng: &mut Xo, min_frac: f64) -> f64 {
    loop {
        let f = *rng.pick(&FRACS);
        if f >= min_frac {
            return f;
        }
    }
}

fn gen_box(rng: &mut Xo, dim: usize) -> Vec<(f64, f64)> {
    (0..dim)
        .map(|_| {
            let lo = if rng.chance(0.3) { 0.0 } else { rng.range(-10.0, 10.0) };
            // (one box side in twenty is very thin: aspect ratios up to 1e4)
            let len = if rng.chance(0.05) { rng.log_range(1e-3, 0.05) } else if rng.chance(0.5) { 10.0 } else { rng.log_range(0.5, 20.0) };
            (lo, lo + len)
        })
        .collect()
}

fn gen_so2_bounds(rng: &mut Xo, angular_bias: bool) -> Option<(f64, f64)> {
    if angular_bias {
        // wide interval that leaves out a neighbourhood of the cut at +-pi
        let m = rng.range(0.05, 1.2);
        return Some((-PI + m * rng.range(0.3, 1.0), PI - m * rng.range(0.3, 1.0)));
    }
    match rng.below(4) {
        0 | 1 => None,
        2 => {
            let lo = rng.range(-PI, PI - 0.5);
            // a third of these intervals end exactly at the seam (+pi or -pi)
            match rng.below(6) {
                0 => Some((lo, PI)),
                1 => Some((-PI, rng.range(-PI + 0.4, PI - 0.1))),
                _ => Some((lo, rng.range(lo + 0.4, PI))),
            }
        }
        _ => Some((-PI + rng.range(0.05, 0.5), PI - rng.range(0.05, 0.5))),
    }
}

fn gen_so3_bounds(rng: &mut Xo, angular_bias: bool) -> Option<([f64; 4], f64)> {
    if angular_bias || rng.chance(0.4) {
        let mut c = if rng.chance(0.3) { [0.0, 0.0, 0.0, 1.0] } else { unit_quat(rng) };
        // a quarter of the centres are written with three decimals (norm off 1 by up to 1e-3):
        // the constructor does not normalise, and every bounds primitive must then use the
        // centre as stored
        if rng.chance(0.25) {
            for x in c.iter_mut() {
                *x = (*x * 1000.0).round() / 1000.0;
            }
        }
        // cones narrower than a hemisphere are convex (a sampler that overshoots them is the
        // only way out), wider ones are not (interpolation can leave them)
        let mut a = if angular_bias && rng.chance(0.65) { rng.range(0.5 * PI + 0.1, PI - 0.2) } else if angular_bias { rng.range(0.6, 0.5 * PI) } else { rng.range(0.6, PI) };
        // one cone in eight is narrow (0.12 .. 0.5 rad): the library's rejection sampler then needs
        // hundreds to ten thousand candidates per sample — whatever it does instead of, or when
        // tired of, rejecting (a direct construction, a cap, a time budget) is exercised here
        if rng.chance(0.125) {
            a = rng.log_range(0.12, 0.5);
        }
        Some((c, a))
    } else {
        None
    }
}

/// A space with at least one component of weight 0 and at least one of positive weight:
/// the library's distance is then only a pseudo-metric (distinct states at distance 0).
fn gen_zero_weight_space(rng: &mut Xo, o: &GenOpts) -> SpaceSpec {
    let mf = o.min_frac;
    match rng.below(4) {
        0 => {
            let mut b = gen_box(rng, 2);
            b.push(gen_so2_bounds(rng, o.angular_bias).unwrap_or((-PI, PI)));
            let native = rng.chance(0.5);
            SpaceSpec::SE2 { weight: 0.0, bounds: b, frac_t: if native { 0.05 } else { pick_frac(rng, mf) }, frac_r: if native { 0.05 } else { pick_frac(rng, mf) }, native }
        }
        1 => {
            let native = rng.chance(0.5);
            SpaceSpec::SE3 { weight: 0.0, bounds: gen_box(rng, 3), cone: if native { None } else if o.angular_bias { gen_so3_bounds(rng, true) } else { None }, frac_t: if native { 0.05 } else { pick_frac(rng, mf) }, frac_r: if native { 0.05 } else { pick_frac(rng, mf) }, native }
        }
        _ => {
            let n = rng.usize_in(2, 3);
            let zero = rng.below(n as u64) as usize;
            let mut parts = vec![];
            let mut weights = vec![];
            for i in 0..n {
                // the weighted part is mostly a real-vector block so that worlds have room
                let pick = if i == zero { rng.below(3) } else { [0, 0, 0, 1, 2][rng.below(5) as usize] };
                parts.push(match pick {
                    0 => {
                        let dim = rng.usize_in(1, 2);
                        SpaceSpec::RV { dim, bounds: Some(gen_box(rng, dim)), frac: pick_frac(rng, mf) }
                    }
                    1 => SpaceSpec::SO2 { bounds: gen_so2_bounds(rng, o.angular_bias), frac: pick_frac(rng, mf) },
                    _ => SpaceSpec::SO3 { bounds: if o.angular_bias { gen_so3_bounds(rng, true) } else { None }, frac: pick_frac(rng, mf) },
                });
                weights.push(if i == zero { 0.0 } else { *rng.pick(&[0.5, 1.0, 1.0, 2.0]) });
            }
            // one in twelve: NO component carries weight (all zero, or so tiny that the squares
            // underflow): every distance and the motion-check resolution are exactly 0
            if rng.chance(0.08) {
                let w = *rng.pick(&[0.0, 0.0, 1e-170]);
                for x in weights.iter_mut() {
                    *x = w;
                }
            }
            SpaceSpec::Compound { parts, weights }
        }
    }
}

pub fn gen_space(rng: &mut Xo, o: &GenOpts) -> SpaceSpec {
    if o.zero_weight {
        return gen_zero_weight_space(rng, o);
    }
    let kinds: Vec<&str> =
        if o.space_kinds.is_empty() { vec!["RV", "RV", "SO2", "SO3", "Compound", "SE2", "SE3"] } else { o.space_kinds.clone() };
    let kind = *rng.pick(&kinds);
    let mf = o.min_frac;
    match kind {
        "RV" => {
            let dim = if rng.chance(0.08) { rng.usize_in(5, 8) } else { rng.usize_in(1, 4) };
            SpaceSpec::RV { dim, bounds: Some(gen_box(rng, dim)), frac: pick_frac(rng, mf) }
        }
        "SO2" => SpaceSpec::SO2 { bounds: gen_so2_bounds(rng, o.angular_bias), frac: pick_frac(rng, mf) },
        "SO3" => SpaceSpec::SO3 { bounds: gen_so3_bounds(rng, o.angular_bias), frac: pick_frac(rng, mf) },
        "Compound" => {
            let n = rng.usize_in(1, 4);
            let mut parts = vec![];
            let mut weights = vec![];
            for _ in 0..n {
                parts.push(match rng.below(4) {
                    0 | 1 => {
                        let dim = rng.usize_in(1, 3);
                        SpaceSpec::RV { dim, bounds: Some(gen_box(rng, dim)), frac: pick_frac(rng, mf) }
                    }
                    2 => SpaceSpec::SO2 { bounds: gen_so2_bounds(rng, o.angular_bias), frac: pick_frac(rng, mf) },
                    _ => SpaceSpec::SO3 { bounds: gen_so3_bounds(rng, o.angular_bias), frac: pick_frac(rng, mf) },
                });
                weights.push(*rng.pick(&[0.0, 1e-3, 0.5, 1.0, 1.0, 1.0, 10.0, 1e3]));
            }
            if weights.iter().all(|w| *w == 0.0) {
                weights[0] = 1.0;
            }
            SpaceSpec::Compound { parts, weights }
        }
        "SE2" => {
            let mut b = gen_box(rng, 2);
            b.push(gen_so2_bounds(rng, o.angular_bias).unwrap_or((-PI, PI)));
            let native = rng.chance(0.4);
            SpaceSpec::SE2 {
                weight: *rng.pick(&[0.1, 0.5, 0.5, 1.0, 2.0]),
                bounds: b,
                frac_t: if native { 0.05 } else { pick_frac(rng, mf) },
                frac_r: if native { 0.05 } else { pick_frac(rng, mf) },
                native,
            }
        }
        _ => {
            let native = rng.chance(0.4);
            SpaceSpec::SE3 {
                weight: *rng.pick(&[0.1, 0.5, 0.5, 1.0, 2.0]),
                bounds: gen_box(rng, 3),
                cone: if native { None } else { gen_so3_bounds(rng, o.angular_bias) },
                frac_t: if native { 0.05 } else { pick_frac(rng, mf) },
                frac_r: if native { 0.05 } else { pick_frac(rng, mf) },
                native,
            }
        }
    }
}

fn shrink_interval(rng: &mut Xo, lo: f64, hi: f64, keep: Option<f64>) -> (f64, f64) {
    let len = hi - lo;
    let nl = len * rng.range(0.4, 0.9);
    let (a_min, a_max) = match keep {
        // the kept coordinate stays inside with a margin of a tenth of the new length
        Some(x) => ((x - 0.9 * nl).max(lo), (x - 0.1 * nl).min(hi - nl)),
        None => (lo, hi - nl),
    };
    if !(a_max >= a_min) || !nl.is_finite() || !(nl > 0.0) {
        return (lo, hi);
    }
    let a = rng.range(a_min, a_max.max(a_min));
    (a, a + nl)
}

/// A variant of `spec` with the same kind and layout but other bounds (tighter boxes and arcs)
/// and / or another motion-check resolution: what a later `setup` may legitimately bring along.
/// `keep`: a flat state that must stay inside the new bounds.
pub fn variant_space(rng: &mut Xo, spec: &SpaceSpec, keep: Option<&[f64]>, min_frac: f64) -> SpaceSpec {
    let tighten = rng.chance(0.6);
    let refrac = !tighten || rng.chance(0.5);
    fn part(rng: &mut Xo, p: &SpaceSpec, keep: Option<&[f64]>, tighten: bool, refrac: bool, mf: f64) -> SpaceSpec {
        match p {
            SpaceSpec::RV { dim, bounds, frac } => SpaceSpec::RV {
                dim: *dim,
                bounds: bounds.as_ref().map(|b| b.iter().enumerate().map(|(i, (lo, hi))| if tighten && rng.chance(0.7) { shrink_interval(rng, *lo, *hi, keep.map(|k| k[i])) } else { (*lo, *hi) }).collect()),
                frac: if refrac { pick_frac(rng, mf) } else { *frac },
            },
            SpaceSpec::SO2 { bounds, frac } => {
                let (lo, hi) = bounds.unwrap_or((-PI, PI));
                let x = keep.map(|k| (k[0] + PI).rem_euclid(2.0 * PI) - PI);
                SpaceSpec::SO2 { bounds: if tighten && rng.chance(0.5) { Some(shrink_interval(rng, lo, hi, x)) } else { *bounds }, frac: if refrac { pick_frac(rng, mf) } else { *frac } }
            }
            SpaceSpec::SO3 { bounds, frac } => SpaceSpec::SO3 { bounds: *bounds, frac: if refrac { pick_frac(rng, mf) } else { *frac } },
            other => other.clone(),
        }
    }
    match spec {
        SpaceSpec::Compound { parts, weights } => {
            let mut off = 0;
            let mut np = vec![];
            for p in parts {
                let w = width(p);
                np.push(part(rng, p, keep.map(|k| &k[off..off + w]), tighten, refrac, min_frac));
                off += w;
            }
            SpaceSpec::Compound { parts: np, weights: weights.clone() }
        }
        SpaceSpec::SE2 { weight, bounds, frac_t, frac_r, native } => {
            let mut b = bounds.clone();
            if tighten {
                for i in 0..3 {
                    if rng.chance(0.6) {
                        let x = keep.map(|k| if i == 2 { (k[2] + PI).rem_euclid(2.0 * PI) - PI } else { k[i] });
                        b[i] = shrink_interval(rng, b[i].0.max(if i == 2 { -PI } else { f64::NEG_INFINITY }), b[i].1.min(if i == 2 { PI } else { f64::INFINITY }), x);
                    }
                }
            }
            let rf = refrac && !*native;
            SpaceSpec::SE2 { weight: *weight, bounds: b, frac_t: if rf { pick_frac(rng, min_frac) } else { *frac_t }, frac_r: if rf { pick_frac(rng, min_frac) } else { *frac_r }, native: *native }
        }
        SpaceSpec::SE3 { weight, bounds, cone, frac_t, frac_r, native } => {
            let mut b = bounds.clone();
            if tighten {
                for i in 0..3 {
                    if rng.chance(0.6) {
                        b[i] = shrink_interval(rng, b[i].0, b[i].1, keep.map(|k| k[i]));
                    }
                }
            }
            let rf = refrac && !*native;
            SpaceSpec::SE3 { weight: *weight, bounds: b, cone: *cone, frac_t: if rf { pick_frac(rng, min_frac) } else { *frac_t }, frac_r: if rf { pick_frac(rng, min_frac) } else { *frac_r }, native: *native }
        }
        other => part(rng, other, keep, tighten, refrac, min_frac),
    }
}

/// Typical scale of the space: the largest distance seen between random samples.
pub fn extent(geo: &dyn Geo, rng: &mut Xo) -> f64 {
    let pts: Vec<St> = (0..12).filter_map(|_| geo.sample(rng)).collect();
    let mut m: f64 = 0.0;
    for i in 0..pts.len() {
        for j in 0..i {
            m = m.max(geo.d(&pts[i], &pts[j]));
        }
    }
    if m > 0.0 && m.is_finite() {
        m
    } else {
        1.0
    }
}

/// `dst` with every rotational component (SO(2), SO(3)) replaced by `src`'s, bit for bit: the
/// two states then differ by a pure translation. None when the space has no rotational
/// component or nothing changes.
pub fn share_rotation(spec: &SpaceSpec, src: &[f64], dst: &[f64]) -> Option<St> {
    let mut out = dst.to_vec();
    let mut off = 0;
    let mut any = false;
    for c in layout(spec) {
        if matches!(c, Comp::SO2 | Comp::SO3) {
            out[off..off + c.width()].copy_from_slice(&src[off..off + c.width()]);
            any = true;
        }
        off += c.width();
    }
    if any && out != dst {
        Some(out)
    } else {
        None
    }
}

/// A state at distance `dist` from `c` (in a random direction), if the space is large enough.
pub fn point_at(geo: &dyn Geo, rng: &mut Xo, c: &[f64], dist: f64) -> Option<St> {
    for _ in 0..40 {
        let u = geo.sample(rng)?;
        let d = geo.d(c, &u);
        if d > dist * 1.02 && d.is_finite() {
            let p = geo.interp(c, &u, dist / d);
            let got = geo.d(c, &p);
            if (got - dist).abs() <= 1e-3 * dist + 1e-12 && geo.in_bounds(&p) {
                return Some(p);
            }
        }
    }
    None
}

fn sample_valid(geo: &dyn Geo, rng: &mut Xo, w: usize, pred: &dyn Fn(&St) -> bool) -> Option<St> {
    for _ in 0..200 {
        let s = geo.sample(rng)?;
        if geo.valid(w, &s) && pred(&s) {
            return Some(s);
        }
    }
    None
}

/// Does the flat layout start with a real-vector block whose coordinates are 1-Lipschitz in
/// the space metric (weight 1)?  Returns that block's (dimension, bounds).
fn leading_box(spec: &SpaceSpec) -> Option<Vec<(f64, f64)>> {
    match spec {
        SpaceSpec::RV { bounds: Some(b), .. } => Some(b.clone()),
        SpaceSpec::SE2 { bounds, .. } => Some(bounds[..2].to_vec()),
        SpaceSpec::SE3 { bounds, .. } => Some(bounds.clone()),
        _ => None,
    }
}

pub struct WorldBuild {
    pub world: WorldSpec,
    pub start: St,
    pub target: St,
    pub goal_radius: f64,
    pub family: &'static str,
    /// provably no valid path at resolution L (C06 clause 2)
    pub sealed: bool,
    pub start_invalid: bool,
    /// goal predicate additionally requires this of one component
    pub goal_comp: Option<CompCond>,
    /// start and goal target share their rotational components bit for bit
    pub translation_task: bool,
}

pub const FAMILIES: [&str; 11] = [
    "zero_weight",
    "open",
    "balls",
    "balls",
    "shell_door",
    "sealed_goal",
    "sealed_start",
    "goal_invalid",
    "thin_wall",
    "start_in_obstacle",
    "goal_overlap",
];

pub fn build_world(geo: &mut Box<dyn Geo>, rng: &mut Xo, ext: f64, family: &'static str) -> WorldBuild {
    let l = geo.lvs();
    let any = |_: &St| true;
    let open = |geo: &mut Box<dyn Geo>, rng: &mut Xo, fam: &'static str| -> WorldBuild {
        geo.set_worlds(&[WorldSpec::default()]);
        // (the library's own sampler places start and goal; should it refuse on a bounded space
        // — which is for the planner runs to bring to light, not for the generator to die of —
        // the middle of the bounds stands in)
        let start = geo.sample(rng).unwrap_or_else(|| crate::spaces::centre_state(geo.spec()));
        let target = geo.sample(rng).unwrap_or_else(|| crate::spaces::centre_state(geo.spec()));
        WorldBuild {
            world: WorldSpec::default(),
            start,
            target,
            goal_radius: rng.range(0.03, 0.15) * ext,
            family: fam,
            sealed: false,
            start_invalid: false,
            goal_comp: None,
            translation_task: false,
        }
    };
    let goal_radius = rng.range(0.03, 0.15) * ext;
    match family {
        "balls" | "goal_overlap" | "start_in_obstacle" => {
            let k = rng.usize_in(1, 6);
            let mut obs = vec![];
            for _ in 0..k {
                if let Some(c) = geo.sample(rng) {
                    obs.push(Obstacle::Ball { c, r: rng.range(0.03, 0.25) * ext });
                }
            }
            let mut world = WorldSpec { obstacles: obs, ..Default::default() };
            geo.set_worlds(&[world.clone()]);
            let (start, target) = match (sample_valid(&**geo, rng, 0, &any), sample_valid(&**geo, rng, 0, &any)) {
                (Some(s), Some(t)) => (s, t),
                _ => return open(geo, rng, "open"),
            };
            let mut start = start;
            let mut start_invalid = false;
            if family == "goal_overlap" {
                if let Some(c) = point_at(&**geo, rng, &target, goal_radius) {
                    world.obstacles.push(Obstacle::Ball { c, r: goal_radius * rng.range(0.5, 0.95) });
                }
            }
            let mut target = target;
            if family == "start_in_obstacle" {
                let r = rng.range(0.08, 0.3) * ext;
                let depth = r * rng.log_range(1e-9, 0.5);
                if let Some(c) = geo.sample(rng) {
                    if let Some(s) = point_at(&**geo, rng, &c, r - depth) {
                        // a fifth of the time the goal region contains the rejected start (the
                        // target itself sits just outside the obstacle)
                        if rng.chance(0.2) {
                            if let Some(t) = point_at(&**geo, rng, &c, r + 0.3 * goal_radius) {
                                if geo.d(&t, &s) < 0.9 * goal_radius {
                                    target = t;
                                }
                            }
                        }
                        world.obstacles.push(Obstacle::Ball { c, r });
                        start = s;
                    }
                }
            }
            geo.set_worlds(&[world.clone()]);
            if !geo.valid(0, &start) {
                start_invalid = true;
            }
            if !geo.valid(0, &target) {
                // keep the target itself valid: drop the offending construction
                return open(geo, rng, "open");
            }
            let fam = if family == "start_in_obstacle" && !start_invalid { "balls" } else { family };
            WorldBuild { world, start, target, goal_radius, family: fam, sealed: false, start_invalid, goal_comp: None, translation_task: false }
        }
        "shell_door" | "sealed_goal" | "sealed_start" => {
            let c = match geo.sample(rng) {
                Some(c) => c,
                None => return open(geo, rng, "open"),
            };
            let r_in = rng.range(0.12, 0.3) * ext;
            let thick = (l * rng.range(1.5, 4.0)).max(0.02 * ext);
            let r_out = r_in + thick;
            let far_d = r_out + rng.range(0.05, 0.3) * ext;
            let far = match point_at(&**geo, rng, &c, far_d) {
                Some(p) => p,
                None => return open(geo, rng, "open"),
            };
            // a fifth of the time a pure-translation task: the far point carries the centre's
            // rotational components bit for bit (as long as it stays clear of the wall)
            let mut far = far;
            let mut shared = false;
            if rng.chance(0.4) {
                if let Some(f2) = share_rotation(geo.spec(), &c, &far) {
                    // (measured with the harness's own metric as well: the far point must be
                    // clear of the wall whichever of the two the world is defined with)
                    let hd = crate::spaces::HMetric::new(geo.spec()).d(&c, &f2);
                    if geo.d(&c, &f2) > r_out + 0.02 * ext && hd > r_out + 0.02 * ext && geo.in_bounds(&f2) {
                        far = f2;
                        shared = true;
                    }
                }
            }
            let mut door = None;
            if family == "shell_door" {
                if let Some(dc) = point_at(&**geo, rng, &c, 0.5 * (r_in + r_out)) {
                    door = Some((dc, thick * rng.range(0.8, 1.6)));
                }
            }
            let world = WorldSpec { obstacles: vec![Obstacle::Shell { c: c.clone(), r_in, r_out, door: door.clone() }], ..Default::default() };
            geo.set_worlds(&[world.clone()]);
            let gr = goal_radius.min(0.5 * r_in);
            let (start, target) = if family == "sealed_start" { (c.clone(), far.clone()) } else { (far.clone(), c.clone()) };
            // goal region must not reach the wall from either side
            let gr = if family == "sealed_start" { gr.min(0.5 * (geo.d(&c, &far) - r_out)) } else { gr };
            if !(gr > 0.0) || !geo.valid(0, &start) || !geo.valid(0, &target) {
                return open(geo, rng, "open");
            }
            WorldBuild {
                world,
                start,
                target,
                goal_radius: gr,
                family,
                sealed: family != "shell_door",
                start_invalid: false,
                goal_comp: None,
                translation_task: shared,
            }
        }
        "slivers" => {
            // many short thin obstacles (thicker than the resolution, thinner than typical steps
            // and radii): boxes on the leading real-vector block, small balls elsewhere
            let mut obs = vec![];
            let k = rng.usize_in(6, 16);
            match leading_box(geo.spec()) {
                Some(bx) if bx.len() >= 2 => {
                    for _ in 0..k {
                        let thin = rng.below(bx.len() as u64) as usize;
                        let mut lo = vec![];
                        let mut hi = vec![];
                        for (i, (l0, h0)) in bx.iter().enumerate() {
                            let size = if i == thin { l * rng.range(1.5, 3.5) } else { (h0 - l0) * rng.range(0.08, 0.25) };
                            let a = rng.range(*l0, (h0 - size).max(*l0));
                            lo.push(a);
                            hi.push(a + size);
                        }
                        obs.push(Obstacle::Box { lo, hi });
                    }
                }
                _ => {
                    for _ in 0..k {
                        if let Some(c) = geo.sample(rng) {
                            obs.push(Obstacle::Ball { c, r: l * rng.range(1.5, 3.5) });
                        }
                    }
                }
            }
            let world = WorldSpec { obstacles: obs, ..Default::default() };
            geo.set_worlds(&[world.clone()]);
            let (start, target) = match (sample_valid(&**geo, rng, 0, &any), sample_valid(&**geo, rng, 0, &any)) {
                (Some(s), Some(t)) => (s, t),
                _ => return open(geo, rng, "open"),
            };
            WorldBuild { world, start, target, goal_radius, family, sealed: false, start_invalid: false, goal_comp: None, translation_task: false }
        }
        "zero_weight" => {
            // validity (and, via WorldBuild::goal_comp, the goal) depends on a component the
            // space metric ignores: states at distance 0 from each other differ in validity
            let lay = layout(geo.spec());
            let ws = crate::spaces::comp_weights(geo.spec());
            let Some(k) = (0..lay.len()).find(|i| ws[*i] == 0.0) else { return build_world(geo, rng, ext, "balls") };
            let off = crate::spaces::comp_offset(&lay, k);
            let w = lay[k].width();
            let comp_of = |s: &St| s[off..off + w].to_vec();
            // radius scale of component k in its own metric
            let scale = match lay[k] {
                Comp::RV(_) => {
                    let pts: Vec<St> = (0..8).filter_map(|_| geo.sample(rng)).collect();
                    let mut m: f64 = 0.0;
                    for a in &pts {
                        for b in &pts {
                            m = m.max(crate::spaces::comp_dist(&lay[k], &a[off..off + w], &b[off..off + w]));
                        }
                    }
                    if m > 0.0 { m } else { 1.0 }
                }
                _ => PI,
            };
            let mut obs = vec![];
            for _ in 0..rng.usize_in(0, 3) {
                if let Some(c) = geo.sample(rng) {
                    obs.push(Obstacle::Ball { c, r: rng.range(0.03, 0.2) * ext });
                }
            }
            for _ in 0..rng.usize_in(1, 2) {
                if let Some(c) = geo.sample(rng) {
                    obs.push(Obstacle::CompBall { comp: k, c: comp_of(&c), r: rng.range(0.08, 0.3) * scale });
                }
            }
            let mut world = WorldSpec { obstacles: obs, ..Default::default() };
            geo.set_worlds(&[world.clone()]);
            let (start, mut target) = match (sample_valid(&**geo, rng, 0, &any), sample_valid(&**geo, rng, 0, &any)) {
                (Some(s), Some(t)) => (s, t),
                _ => return open(geo, rng, "open"),
            };
            // "turn in place": the goal shares every weighted coordinate with the start
            if rng.chance(0.5) {
                let keep = comp_of(&target);
                target = start.clone();
                target[off..off + w].copy_from_slice(&keep);
            }
            let mut goal_comp = None;
            if rng.chance(0.65) {
                let r = rng.range(0.05, 0.2) * scale;
                goal_comp = Some(CompCond { comp: k, c: comp_of(&target), r });
                // sometimes an obstacle covers part of the goal's component interval, so that
                // some goal samples are rejected by the checker
                if rng.chance(0.5) {
                    let mut c = comp_of(&target);
                    match lay[k] {
                        Comp::SO3 => {}
                        _ => c[0] += r * if rng.chance(0.5) { 1.0 } else { -1.0 },
                    }
                    if !matches!(lay[k], Comp::SO3) {
                        world.obstacles.push(Obstacle::CompBall { comp: k, c, r: r * rng.range(0.5, 0.95) });
                    }
                }
            }
            geo.set_worlds(&[world.clone()]);
            if !geo.valid(0, &start) || !geo.valid(0, &target) {
                return open(geo, rng, "open");
            }
            WorldBuild { world, start, target, goal_radius, family, sealed: false, start_invalid: false, goal_comp, translation_task: false }
        }
        "sealed_by_bounds" => {
            // SO(2) bounded to an arc: an obstacle blocks the way inside the arc, the only other
            // way leads through the excluded gap at +-pi, i.e. out of bounds — no valid path
            let (lo, hi) = match geo.spec() {
                SpaceSpec::SO2 { bounds: Some((lo, hi)), .. } if *lo < -1.5 && *hi > 1.5 && (*lo > -PI + 1e-3 || *hi < PI - 1e-3) => (*lo, *hi),
                _ => return build_world(geo, rng, ext, "sealed_goal"),
            };
            let gap = (lo + PI) + (PI - hi);
            if !(gap > 4.0 * l + 1e-6) {
                // the gap must be wider than any motion-check spacing could step over unnoticed
                return build_world(geo, rng, ext, "sealed_goal");
            }
            let c = rng.range(-0.4, 0.4);
            let r = (l * rng.range(1.5, 4.0)).max(0.05).min(0.6);
            let world = WorldSpec { obstacles: vec![Obstacle::Ball { c: vec![c], r }], ..Default::default() };
            geo.set_worlds(&[world.clone()]);
            let a = rng.range(lo + 0.02, c - r - 0.05);
            let b = rng.range(c + r + 0.05, hi - 0.02);
            let (start, target) = if rng.chance(0.5) { (vec![a], vec![b]) } else { (vec![b], vec![a]) };
            let room = (target[0] - c).abs() - r;
            let gr = goal_radius.min(0.5 * room).min(0.5 * (hi - target[0]).abs().max(1e-3)).min(0.5 * (target[0] - lo).abs().max(1e-3));
            if !(gr > 0.0) || !geo.valid(0, &start) || !geo.valid(0, &target) {
                return open(geo, rng, "open");
            }
            WorldBuild { world, start, target, goal_radius: gr, family, sealed: true, start_invalid: false, goal_comp: None, translation_task: false }
        }
        "goal_invalid" => {
            let mut wb = open(geo, rng, "goal_invalid");
            wb.goal_radius = goal_radius;
            wb.world = WorldSpec { obstacles: vec![Obstacle::Ball { c: wb.target.clone(), r: goal_radius * rng.range(1.05, 1.5) + 1e-9 }], ..Default::default() };
            geo.set_worlds(&[wb.world.clone()]);
            if !geo.valid(0, &wb.start) {
                return open(geo, rng, "open");
            }
            wb.sealed = true;
            wb
        }
        "workspace" => {
            // the checker also rejects everything outside the workspace — the box the space's
            // bounds describe, widened by a hair so that a state within rounding of a bound is
            // still valid — and the goal region sticks out of it: its target sits next to a
            // face of the box (the `Reflect` sampler then returns goal samples outside the
            // bounds, which the checker rejects)
            let Some(bx) = leading_box(geo.spec()) else { return build_world(geo, rng, ext, "balls") };
            let m = 1e-9 * ext;
            let mut obs = vec![Obstacle::Outside { lo: bx.iter().map(|b| b.0 - m).collect(), hi: bx.iter().map(|b| b.1 + m).collect() }];
            for _ in 0..rng.usize_in(0, 3) {
                if let Some(c) = geo.sample(rng) {
                    obs.push(Obstacle::Ball { c, r: rng.range(0.03, 0.2) * ext });
                }
            }
            let world = WorldSpec { obstacles: obs, ..Default::default() };
            geo.set_worlds(&[world.clone()]);
            let (start, mut target) = match (sample_valid(&**geo, rng, 0, &any), sample_valid(&**geo, rng, 0, &any)) {
                (Some(s), Some(t)) => (s, t),
                _ => return open(geo, rng, "open"),
            };
            let gr = rng.range(0.05, 0.2) * ext;
            let k = rng.below(bx.len() as u64) as usize;
            let inset = gr * rng.range(0.02, 0.6);
            target[k] = if rng.chance(0.5) { bx[k].0 + inset } else { bx[k].1 - inset };
            if !(target[k] > bx[k].0 && target[k] < bx[k].1) || !geo.valid(0, &target) {
                return open(geo, rng, "open");
            }
            WorldBuild { world, start, target, goal_radius: gr, family, sealed: false, start_invalid: false, goal_comp: None, translation_task: false }
        }
        "thin_wall" => {
            let bx = match leading_box(geo.spec()) {
                Some(b) => b,
                None => return build_world(geo, rng, ext, "shell_door"),
            };
            let axis = rng.below(bx.len() as u64) as usize;
            let (lo, hi) = bx[axis];
            let thick = l * rng.range(1.2, 6.0);
            if thick > 0.3 * (hi - lo) {
                return build_world(geo, rng, ext, "balls");
            }
            let pos = rng.range(lo + 0.25 * (hi - lo), hi - 0.25 * (hi - lo) - thick);
            let gap = if bx.len() >= 2 && rng.chance(0.6) {
                let ga = (axis + 1 + rng.below(bx.len() as u64 - 1) as usize) % bx.len();
                let (gl, gh) = bx[ga];
                let gw = (gh - gl) * rng.range(0.05, 0.3);
                let g0 = rng.range(gl, gh - gw);
                Some((ga, g0, g0 + gw))
            } else {
                None
            };
            let world = WorldSpec { obstacles: vec![Obstacle::Wall { axis, lo: pos, hi: pos + thick, gap }], ..Default::default() };
            geo.set_worlds(&[world.clone()]);
            let left = |s: &St| s[axis] < pos - 1e-9;
            let right = |s: &St| s[axis] > pos + thick + 1e-9;
            let (start, target) = match (sample_valid(&**geo, rng, 0, &left), sample_valid(&**geo, rng, 0, &right)) {
                (Some(a), Some(b)) => {
                    if rng.chance(0.5) {
                        (a, b)
                    } else {
                        (b, a)
                    }
                }
                _ => return open(geo, rng, "open"),
            };
            // goal region must stay on the target's side of the wall for the world to be sealed
            let room = if target[axis] < pos { pos - target[axis] } else { target[axis] - (pos + thick) };
            let gr = goal_radius.min(0.5 * room);
            if !(gr > 0.0) {
                return open(geo, rng, "open");
            }
            WorldBuild { world, start, target, goal_radius: gr, family, sealed: gap.is_none(), start_invalid: false, goal_comp: None, translation_task: false }
        }
        _ => open(geo, rng, "open"),
    }
}

pub fn gen_planner(rng: &mut Xo, kind: PlannerKind, ext: f64) -> PlannerSpec {
    let max_distance = match rng.below(10) {
        0 => ext * rng.log_range(1e-3, 1e-2),
        1 => ext * rng.range(1.0, 10.0),
        _ => ext * rng.log_range(0.02, 0.6),
    };
    let search_radius = match rng.below(6) {
        0 => max_distance * rng.range(0.1, 0.9),
        1 => ext * rng.range(0.5, 3.0),
        _ => max_distance * rng.range(1.0, 3.0),
    };
    let connection_radius = match rng.below(8) {
        0 => ext * rng.log_range(1e-3, 0.05),
        1 => ext * rng.range(1.0, 10.0),
        _ => ext * rng.range(0.1, 0.6),
    };
    // degenerate steps: exactly 0, or positive but below the float resolution of the coordinates
    // (every extension then "advances" without moving)
    let max_distance = match rng.below(60) {
        0 => 0.0,
        1 => 1e-20 * ext,
        // "unlimited": the largest finite double (arithmetic on it overflows or underflows)
        2 => f64::MAX,
        _ => max_distance,
    };
    // degenerate radii: exactly 0 (RRT* then has no neighbours, PRM no links)
    let search_radius = match rng.below(100) {
        0..=2 => 0.0,
        3 => f64::MAX,
        _ => search_radius,
    };
    let connection_radius = match rng.below(100) {
        0 | 1 => 0.0,
        2 => f64::MAX,
        _ => connection_radius,
    };
    PlannerSpec {
        kind,
        max_distance,
        goal_bias: *rng.pick(&[0.0, 0.05, 0.05, 0.05, 0.2, 0.5, 1.0]),
        search_radius,
        prm_timeout_s: 1.0,
        connection_radius,
        seed: Some(rng.u64() % 1_000_000),
    }
}

pub fn gen_clock(rng: &mut Xo) -> ClockSpec {
    let pat = |rng: &mut Xo| -> Vec<u64> {
        match rng.below(5) {
            0 => vec![],
            1 => vec![rng.below(5000)],
            2 => (0..rng.usize_in(2, 7)).map(|_| rng.below(20_000)).collect(),
            3 => {
                // bursty: long free stretches, then an expensive call
                let mut v = vec![0; rng.usize_in(3, 40)];
                v.push(rng.below(5_000_000));
                v
            }
            _ => vec![100],
        }
    };
    ClockSpec {
        tick_ns: *rng.pick(&[1, 50, 1000, 1000, 100_000]),
        cost_valid: pat(rng),
        cost_sample: pat(rng),
        cost_goal: pat(rng),
    }
}

/// A solve call that is given `iters` planning iterations (if it does not succeed earlier),
/// by one of several schedule shapes. Returns the call and the name of the deadline kind.
pub fn gen_solve(rng: &mut Xo, clock: &mut ClockSpec, iters: u64) -> (CallSpec, &'static str) {
    match rng.below(7) {
        // ... inside a goal test
        6 => (
            CallSpec::Solve {
                timeout_ns: 1_000_000_000_000,
                stalls: vec![
                    Stall { at: Phase::GoalSat, nth: 1 + rng.below(iters.max(1)), ns: STALL_NS },
                    Stall { at: Phase::Sample, nth: iters.max(1), ns: STALL_NS },
                ],
            },
            "deadline_in_goal_test",
        ),
        // the deadline passes inside the k-th sampling event (a stall longer than the timeout)
        0 | 1 | 2 => (
            CallSpec::Solve {
                timeout_ns: 1_000_000_000_000,
                stalls: vec![Stall { at: Phase::Sample, nth: iters.max(1), ns: STALL_NS }],
            },
            "deadline_in_sampler",
        ),
        // ... inside a validity query of a motion check
        3 => (
            CallSpec::Solve {
                timeout_ns: 1_000_000_000_000,
                stalls: vec![
                    Stall { at: Phase::Valid, nth: 1 + rng.below(iters.max(1) * 8), ns: STALL_NS },
                    Stall { at: Phase::Sample, nth: iters.max(1), ns: STALL_NS },
                ],
            },
            "deadline_mid_motion_check",
        ),
        // frozen costs: only clock reads advance time, so the deadline falls on a loop-top read
        4 => {
            clock.cost_valid.clear();
            clock.cost_sample.clear();
            clock.cost_goal.clear();
            (
                CallSpec::Solve { timeout_ns: clock.tick_ns.saturating_mul(iters + 1), stalls: vec![] },
                "deadline_at_loop_top",
            )
        }
        // constant per-sample cost decides
        _ => {
            clock.cost_sample = vec![1_000_000];
            (
                CallSpec::Solve {
                    timeout_ns: 1_000_000 * iters + 1,
                    stalls: vec![Stall { at: Phase::Sample, nth: iters.max(1) + 50, ns: STALL_NS }],
                },
                "deadline_by_costs",
            )
        }
    }
}

/// Largest iteration budget <= `want` whose worst-case number of validity queries stays
/// affordable (runs must stay cheap: many short runs beat a few long ones).
pub fn affordable_iters(p: &PlannerSpec, l: f64, ext: f64, want: u64) -> u64 {
    affordable_iters_b(p, l, ext, want, 4e5)
}

pub fn affordable_iters_b(p: &PlannerSpec, l: f64, ext: f64, want: u64, budget: f64) -> u64 {
    let dmax = 2.0 * ext;
    let q = |len: f64| -> f64 {
        if l > 0.0 {
            (len.min(dmax) / (0.1 * l)).ceil().max(1.0)
        } else {
            1.0
        }
    };
    let cost = |n: f64| -> f64 {
        match p.kind {
            PlannerKind::RRT | PlannerKind::RRTConnect => 2.0 * n * q(p.max_distance),
            PlannerKind::RRTStar => n * q(p.max_distance) + n * n * q(p.search_radius),
            PlannerKind::PRM => 0.5 * n * n * q(p.connection_radius) + n,
        }
    };
    let mut n = want.max(1);
    while n > 1 && cost(n as f64) > budget {
        n = (n * 3 / 4).max(1);
    }
    n
}

pub fn construct_call(samples: u64) -> CallSpec {
    CallSpec::Construct { stalls: vec![Stall { at: Phase::Sample, nth: samples.max(1), ns: STALL_NS }] }
}

/// The common single-problem scenario: `setup`, (PRM: `construct_roadmap`), `solve`.
pub fn base(rng: &mut Xo, prop: &str, seed: u64, index: u64, o: &GenOpts) -> Scenario {
    let fams: Vec<&'static str> = if o.families.is_empty() { FAMILIES.to_vec() } else { o.families.clone() };
    let fam = *rng.pick(&fams);
    let space = if fam == "zero_weight" {
        gen_space(rng, &GenOpts { zero_weight: true, ..o.clone() })
    } else if fam == "sealed_by_bounds" {
        let m = rng.range(0.3, 1.2);
        SpaceSpec::SO2 { bounds: Some((-PI + m * rng.range(0.4, 1.0), PI - m * rng.range(0.4, 1.0))), frac: *rng.pick(&[0.05, 0.05, 0.01, 0.02]) }
    } else {
        gen_space(rng, o)
    };
    let mut geo = geo_for(&space).expect("generated spaces build");
    let ext = extent(&*geo, rng);
    let wb = build_world(&mut geo, rng, ext, fam);
    let kind = o.planner.unwrap_or_else(|| *rng.pick(&PlannerKind::ALL));
    let planner = gen_planner(rng, kind, ext);
    let mut clock = gen_clock(rng);
    let iters = affordable_iters_b(&planner, geo.lvs(), ext, 1 + rng.below(o.max_iters.max(1)), if o.query_budget > 0.0 { o.query_budget } else { 4e5 });
    let mut calls = vec![CallSpec::Setup { problem: 0 }];
    let mut params = BTreeMap::new();
    if kind == PlannerKind::PRM {
        calls.push(construct_call(iters));
        calls.push(CallSpec::Solve { timeout_ns: 1_000_000_000_000, stalls: vec![] });
        params.insert("deadline_kind".into(), 9.0);
    } else {
        let (c, dk) = gen_solve(rng, &mut clock, iters);
        calls.push(c);
        params.insert(
            "deadline_kind".into(),
            match dk {
                "deadline_in_sampler" => 0.0,
                "deadline_mid_motion_check" => 1.0,
                "deadline_at_loop_top" => 2.0,
                _ => 3.0,
            },
        );
    }
    params.insert("ext".into(), ext);
    // a quarter of the scenarios hand the planner freshly built problem-definition / goal objects
    // on every call; the others keep and re-use them (object identity is observable: Arc::ptr_eq)
    if rng.chance(0.25) {
        params.insert("fresh_objects".into(), 1.0);
    }
    params.insert("sealed".into(), if wb.sealed { 1.0 } else { 0.0 });
    params.insert("start_invalid".into(), if wb.start_invalid { 1.0 } else { 0.0 });
    let mut sampler = o.goal_sampler.unwrap_or_else(|| *rng.pick(&[GoalSampler::Fixed, GoalSampler::Harness, GoalSampler::Harness]));
    // degenerate goal regions: a single state (radius 0, reached only by sampling it), or one so
    // large that it contains the start
    let mut wb = wb;
    if !wb.sealed && !wb.start_invalid && wb.goal_comp.is_none() && o.goal_sampler.is_none() && matches!(wb.family, "open" | "balls") {
        match rng.below(40) {
            0 => {
                // (only where the target is at distance exactly 0 from itself in both metrics —
                // unit quaternions whose self-product rounds below 1 are 3e-8 away from
                // themselves, and a goal whose own sample fails its predicate is a user error)
                let self_d = geo.d(&wb.target, &wb.target).max(crate::spaces::HMetric::new(&space).d(&wb.target, &wb.target));
                if self_d == 0.0 {
                    wb.goal_radius = 0.0;
                    sampler = GoalSampler::Fixed;
                }
            }
            1 => {
                let d = geo.d(&wb.start, &wb.target);
                if d.is_finite() && d > 0.0 {
                    wb.goal_radius = d * rng.range(1.05, 2.0);
                }
            }
            _ => {}
        }
    }
    if wb.family == "zero_weight" && sampler != GoalSampler::Planner && rng.chance(0.5) {
        sampler = GoalSampler::Turn;
    }
    if wb.family == "workspace" && o.goal_sampler.is_none() {
        sampler = *rng.pick(&[GoalSampler::Reflect, GoalSampler::Reflect, GoalSampler::Harness]);
    }
    // pure-translation task: the goal target carries the start's rotational components bit for
    // bit (start and every Fixed goal sample then have identical orientation)
    let mut wb = wb;
    if !wb.sealed && !wb.start_invalid && wb.goal_comp.is_none() && rng.chance(0.08) {
        if let Some(t2) = share_rotation(&space, &wb.start, &wb.target) {
            geo.set_worlds(&[wb.world.clone()]);
            if geo.valid(0, &t2) && geo.in_bounds(&t2) && geo.d(&wb.start, &t2) > 0.0 {
                wb.target = t2;
                wb.translation_task = true;
            }
        }
    }
    if wb.translation_task && o.goal_sampler.is_none() {
        sampler = *rng.pick(&[GoalSampler::Fixed, GoalSampler::Translate, GoalSampler::Translate]);
    }
    // legal but non-canonical start: SO(2) components off by whole turns (the state types have
    // public fields and every space primitive accepts any angle)
    let mut wb = wb;
    if !o.canonical_only && rng.chance(0.12) {
        let mut off = 0;
        for c in layout(&space) {
            if let Comp::SO2 = c {
                wb.start[off] += 2.0 * PI * *rng.pick(&[-2.0, -1.0, 1.0, 1.0, 2.0]);
            }
            off += c.width();
        }
    }
    // "already there" task: the goal target is the start configuration in ANOTHER REPRESENTATION
    // (distance exactly 0, different bits: -0.0 / a denormal-squared offset in a coordinate that
    // is 0, an angle a full turn away, the quaternion -q); the goal sampler returns that target,
    // so trees get zero-length hops between states that are not bit-identical
    if !o.canonical_only && !wb.sealed && !wb.start_invalid && wb.goal_comp.is_none() && !wb.translation_task && o.goal_sampler.is_none() && rng.chance(0.04) {
        let mut s2 = wb.start.clone();
        let mut t2 = wb.start.clone();
        let mut changed = false;
        let mut off = 0;
        let bx = leading_box(&space);
        for (k, c) in layout(&space).iter().enumerate() {
            match c {
                Comp::RV(n) => {
                    for i in 0..*n {
                        let b = if k == 0 { bx.as_ref().and_then(|b| b.get(i).copied()) } else { None };
                        if let Some((lo, hi)) = b {
                            if lo < 0.0 && hi > 0.0 && rng.chance(0.5) {
                                s2[off + i] = 0.0;
                                t2[off + i] = if rng.chance(0.5) { -0.0 } else { 1e-170 };
                                changed = true;
                            }
                        }
                    }
                }
                Comp::SO2 => {
                    if rng.chance(0.7) {
                        s2[off] = 0.0;
                        t2[off] = 2.0 * PI * if rng.chance(0.5) { 1.0 } else { -1.0 };
                        changed = true;
                    }
                }
                Comp::SO3 => {
                    if rng.chance(0.7) {
                        for i in 0..4 {
                            t2[off + i] = -s2[off + i];
                        }
                        changed = true;
                    }
                }
            }
            off += c.width();
        }
        geo.set_worlds(&[wb.world.clone()]);
        let hd = crate::spaces::HMetric::new(&space).d(&s2, &t2);
        if changed && s2 != t2 && hd == 0.0 && geo.d(&s2, &t2) == 0.0 && geo.valid(0, &s2) && geo.valid(0, &t2) && geo.in_bounds(&s2) && geo.in_bounds(&t2) {
            wb.start = s2;
            wb.target = t2;
            sampler = GoalSampler::Fixed;
            params.insert("start_on_goal".into(), 1.0);
        }
    }
    // (a later tweak may have replaced the target of a single-state goal: it must still be at
    // distance exactly 0 from itself, or the goal's own sample would fail its predicate)
    if wb.goal_radius == 0.0 {
        let self_d = geo.d(&wb.target, &wb.target).max(crate::spaces::HMetric::new(&space).d(&wb.target, &wb.target));
        if !(self_d == 0.0) {
            wb.goal_radius = 0.05 * ext;
        }
    }
    // the problem definition holds a LIST of start states; the planners plan from the first. A
    // tenth of the problems (half of those whose first start is rejected) list a second, valid one.
    let starts = {
        let mut v = vec![wb.start.clone()];
        if !o.canonical_only && (rng.chance(0.1) || (wb.start_invalid && rng.chance(0.5))) {
            geo.set_worlds(&[wb.world.clone()]);
            if let Some(s2) = sample_valid(&*geo, rng, 0, &|_| true) {
                v.push(s2);
            }
        }
        v
    };
    // half of the scenarios define obstacles and goal with the harness's own metric (never the
    // mirrored ones: the Python side measures with the wrapper's `distance`)
    let hm = !o.library_metric && rng.chance(0.5);
    wb.world.harness_metric = hm;
    Scenario {
        property: prop.into(),
        family: wb.family.into(),
        seed,
        index,
        space,
        worlds: vec![wb.world],
        problems: vec![ProblemSpec {
            starts,
            goal: GoalSpec { target: wb.target, radius: wb.goal_radius, sampler, sampler_seed: rng.u64() % 1_000_000, comp: wb.goal_comp, harness_metric: hm, cycle: vec![] },
            world: 0, space: None
        }],
        planner,
        sampling: Sampling { script: vec![] },
        clock,
        calls,
        faults: vec![],
        params,
        expect: None,
    }
}

/// A single-state goal (radius 0) is only consistent when its target is at distance exactly 0
/// from itself in both metrics; otherwise the goal's own sample would fail its predicate.
/// Problems derived from another one inherit its radius with a new target: re-check.
pub fn fix_point_goals(scn: &mut Scenario) {
    let ext = scn.param("ext").unwrap_or(1.0);
    for i in 0..scn.problems.len() {
        if scn.problems[i].goal.radius == 0.0 {
            let sp = scn.problems[i].space.clone().unwrap_or_else(|| scn.space.clone());
            let t = scn.problems[i].goal.target.clone();
            let d = geo_for(&sp).map(|g| g.d(&t, &t)).unwrap_or(f64::NAN).max(crate::spaces::HMetric::new(&sp).d(&t, &t));
            if !(d == 0.0) {
                scn.problems[i].goal.radius = 0.05 * ext;
            }
        }
    }
}

pub fn space_label(scn: &Scenario) -> String {
    let lay = layout(&scn.space);
    let parts: Vec<String> = lay
        .iter()
        .map(|c| match c {
            Comp::RV(n) => format!("R{n}"),
            Comp::SO2 => "SO2".into(),
            Comp::SO3 => "SO3".into(),
        })
        .collect();
    format!("{}[{}]", kind_name(&scn.space), parts.join("x"))
}
