//! oxsim — deterministic simulation with fault injection for oxmpl.
//!
//!   oxsim check <ID> <quick|thorough>
//!   oxsim replay <file>
//!   oxsim dump <ID> <index>            (print the generated scenario)

mod checks;
mod gen;
mod minimise;
mod mirror;
mod oracle;
mod prmcheck;
mod prng;
mod runner;
mod sim;
mod spaces;
mod spec;
mod treechecks;
mod world;

use std::os::fd::FromRawFd;
use std::sync::{Arc, Mutex};

use runner::{Check, Env, Tier};

fn registry(id: &str) -> Option<Arc<dyn Check>> {
    Some(match id {
        "C01" | "C02" | "C03" | "C04" | "C05" | "C06" => {
            let id: &'static str = ["C01", "C02", "C03", "C04", "C05", "C06"].into_iter().find(|x| *x == id).unwrap();
            Arc::new(checks::PathProp { id })
        }
        "C07" => Arc::new(checks::C07),
        "C08" => Arc::new(checks::C08),
        "C18" => Arc::new(prmcheck::C18),
        "C15" => Arc::new(treechecks::TreeProp { id: "C15" }),
        "C16" => Arc::new(treechecks::TreeProp { id: "C16" }),
        "C17" => Arc::new(treechecks::TreeProp { id: "C17" }),
        _ => return None,
    })
}

fn main() {
    // Planner code prints on success; keep the real stdout for our own lines only.
    let real_out = unsafe {
        let fd = libc::dup(1);
        let devnull = libc::open(c"/dev/null".as_ptr(), libc::O_WRONLY);
        libc::dup2(devnull, 1);
        std::fs::File::from_raw_fd(fd)
    };
    sim::install_panic_hook();
    let args: Vec<String> = std::env::args().collect();
    let dir = std::env::var("VERIF_DIR").unwrap_or_else(|_| ".".into());
    let seed = std::env::var("VERIF_SEED").ok().and_then(|s| s.trim().parse::<u64>().ok()).unwrap_or(20261004);
    let workers = std::env::var("VERIF_WORKERS").ok().and_then(|s| s.parse().ok()).unwrap_or(16usize).max(1);
    let runs_override = std::env::var("VERIF_RUNS").ok().and_then(|s| s.parse().ok());
    let out_dir = std::env::var("VERIF_OUT").unwrap_or_else(|_| dir.clone());
    let env = Arc::new(Env { dir, out_dir, seed, workers, runs_override, out: Mutex::new(real_out) });
    let code = match args.get(1).map(|s| s.as_str()) {
        Some("check") => {
            let id = args.get(2).cloned().unwrap_or_default();
            let tier = match std::env::var("VERIF_TIER").ok().as_deref().or(args.get(3).map(|s| s.as_str())) {
                Some("thorough") => Tier::Thorough,
                _ => Tier::Quick,
            };
            let tier = match args.get(3).map(|s| s.as_str()) {
                Some("thorough") => Tier::Thorough,
                Some("quick") => Tier::Quick,
                _ => tier,
            };
            match registry(&id) {
                Some(c) => runner::run_check(&env, c, tier),
                None => {
                    env.say(&format!("unknown property {id}"));
                    2
                }
            }
        }
        Some("replay") => {
            let path = args.get(2).cloned().unwrap_or_default();
            match std::fs::read_to_string(&path).ok().and_then(|s| serde_json::from_str::<spec::Scenario>(&s).ok()) {
                Some(scn) => match registry(&scn.property) {
                    Some(c) => runner::run_replay(&env, c, &scn, &path),
                    None => {
                        env.say("replay: unknown property in file");
                        2
                    }
                },
                None => {
                    env.say(&format!("replay: cannot read {path}"));
                    2
                }
            }
        }
        // development aid: print scenario <index> of a check and what evaluating it reports
        Some("gen") => {
            let id = args.get(2).cloned().unwrap_or_default();
            let index: u64 = args.get(3).and_then(|s| s.parse().ok()).unwrap_or(0);
            let tier = if args.get(4).map(|s| s.as_str()) == Some("thorough") { Tier::Thorough } else { Tier::Quick };
            match registry(&id) {
                Some(c) => {
                    let mut scn = c.generate(seed, index, tier);
                    gen::fix_point_goals(&mut scn);
                    let t = std::time::Instant::now();
                    let rep = c.evaluate(&scn);
                    env.say(&serde_json::to_string_pretty(&scn).unwrap());
                    env.say(&format!("runs={} events={} nontrivial={} violations={:?} probes={:?} wall={:?}", rep.runs, rep.events, rep.nontrivial, rep.violations.iter().map(|v| v.sig.clone()).collect::<Vec<_>>(), rep.probes, t.elapsed()));
                    0
                }
                None => 2,
            }
        }
        Some("gen-mirror") => {
            let prop = args.get(2).cloned().unwrap_or_default();
            let n: u64 = args.get(3).and_then(|s| s.parse().ok()).unwrap_or(10);
            let path = args.get(4).cloned().unwrap_or_default();
            match mirror::gen_mirror(&prop, seed, n, &path) {
                Ok(k) => {
                    env.say(&format!("wrote {k} mirrored scenarios to {path}"));
                    0
                }
                Err(e) => {
                    env.say(&format!("gen-mirror failed: {e}"));
                    2
                }
            }
        }
        Some("gen-wrappers") => {
            let n: u64 = args.get(2).and_then(|s| s.parse().ok()).unwrap_or(10);
            let path = args.get(3).cloned().unwrap_or_default();
            match mirror::gen_wrapper_cases(seed, n, &path) {
                Ok(k) => {
                    env.say(&format!("wrote {k} wrapper cases to {path}"));
                    0
                }
                Err(e) => {
                    env.say(&format!("gen-wrappers failed: {e}"));
                    2
                }
            }
        }
        Some("run-json") => {
            // reference result of one scenario file (C20: with the fault region as an obstacle)
            let path = args.get(2).cloned().unwrap_or_default();
            match std::fs::read_to_string(&path).ok().and_then(|s| serde_json::from_str::<spec::Scenario>(&s).ok()) {
                Some(mut scn) => {
                    if scn.property == "C20" && scn.worlds.len() > 1 {
                        scn.problems[0].world = 1;
                    }
                    env.say(&mirror::result_json(&scn).to_string());
                    0
                }
                None => {
                    env.say("run-json: cannot read scenario");
                    2
                }
            }
        }
        Some("dump") => {
            let id = args.get(2).cloned().unwrap_or_default();
            let idx: u64 = args.get(3).and_then(|s| s.parse().ok()).unwrap_or(0);
            match registry(&id) {
                Some(c) => {
                    let scn = c.generate(seed, idx, Tier::Quick);
                    env.say(&serde_json::to_string_pretty(&scn).unwrap());
                    let rep = c.evaluate(&scn);
                    env.say(&format!("runs={} nontrivial={} probes={:?}", rep.runs, rep.nontrivial, rep.probes));
                    for v in &rep.violations {
                        env.say(&format!("  {} :: {}", v.sig, v.detail));
                    }
                    0
                }
                None => 2,
            }
        }
        _ => {
            env.say("usage: oxsim check <ID> <quick|thorough> | replay <file> | dump <ID> <index>");
            2
        }
    };
    std::process::exit(code);
}
