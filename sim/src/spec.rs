//! Scenario = replay file. Everything a run does is a function of this value and the code.

use serde::{Deserialize, Serialize};

/// f64 that may be non-finite: serialised as a number when finite, else as a string.
pub mod fx {
    use serde::{Deserialize, Deserializer, Serializer};
    pub fn serialize<S: Serializer>(v: &f64, s: S) -> Result<S::Ok, S::Error> {
        if v.is_finite() {
            s.serialize_f64(*v)
        } else if v.is_nan() {
            s.serialize_str("NaN")
        } else if *v > 0.0 {
            s.serialize_str("inf")
        } else {
            s.serialize_str("-inf")
        }
    }
    pub fn deserialize<'de, D: Deserializer<'de>>(d: D) -> Result<f64, D::Error> {
        #[derive(Deserialize)]
        #[serde(untagged)]
        enum E {
            N(f64),
            S(String),
        }
        Ok(match E::deserialize(d)? {
            E::N(v) => v,
            E::S(s) => match s.as_str() {
                "NaN" => f64::NAN,
                "inf" => f64::INFINITY,
                "-inf" => f64::NEG_INFINITY,
                _ => return Err(serde::de::Error::custom("bad float")),
            },
        })
    }
}

pub type St = Vec<f64>;

#[derive(Serialize, Deserialize, Clone, Debug, PartialEq)]
#[serde(tag = "kind")]
pub enum SpaceSpec {
    /// R^n with per-dimension bounds; `bounds: None` = unbounded (sampling must fail).
    RV {
        dim: usize,
        bounds: Option<Vec<(f64, f64)>>,
        frac: f64,
    },
    SO2 {
        bounds: Option<(f64, f64)>,
        frac: f64,
    },
    /// `bounds`: (centre quaternion xyzw, max angle)
    SO3 {
        bounds: Option<([f64; 4], f64)>,
        frac: f64,
    },
    /// Components must be RV / SO2 / SO3.
    Compound {
        parts: Vec<SpaceSpec>,
        weights: Vec<f64>,
    },
    /// `native`: built with `SE2StateSpace::new(weight, bounds)` (what the Python API can
    /// express); otherwise assembled from components so that fractions can vary.
    SE2 {
        weight: f64,
        bounds: Vec<(f64, f64)>,
        frac_t: f64,
        frac_r: f64,
        native: bool,
    },
    SE3 {
        weight: f64,
        bounds: Vec<(f64, f64)>,
        cone: Option<([f64; 4], f64)>,
        frac_t: f64,
        frac_r: f64,
        native: bool,
    },
}

#[derive(Serialize, Deserialize, Clone, Debug, PartialEq)]
#[serde(tag = "shape")]
pub enum Obstacle {
    /// {x : d(x,c) < r}
    Ball { c: St, r: f64 },
    /// {x : r_in < d(x,c) < r_out} minus an optional door ball
    Shell {
        c: St,
        r_in: f64,
        r_out: f64,
        door: Option<(St, f64)>,
    },
    /// Axis-aligned box on the leading real-vector coordinates: lo[i] < x[i] < hi[i] for all i.
    Box { lo: Vec<f64>, hi: Vec<f64> },
    /// Slab lo < x[axis] < hi with an optional gap on another axis (glo < x[gaxis] < ghi is free).
    Wall {
        axis: usize,
        lo: f64,
        hi: f64,
        gap: Option<(usize, f64, f64)>,
    },
    /// {x : d_k(x_k, c) < r} where x_k is the `comp`-th component of the state and d_k that
    /// component's own (unweighted) metric, computed by the harness: a cylinder that depends on
    /// one component only — also on one the space metric ignores (weight 0).
    CompBall { comp: usize, c: Vec<f64>, r: f64 },
    /// Complement of an axis-aligned box on the leading real-vector coordinates ("workspace
    /// walls"): invalid iff x[i] < lo[i] or x[i] > hi[i] for some i.
    Outside { lo: Vec<f64>, hi: Vec<f64> },
}

/// "the `comp`-th component lies within `r` of `c`" (component's own unweighted metric)
#[derive(Serialize, Deserialize, Clone, Debug, PartialEq)]
pub struct CompCond {
    pub comp: usize,
    pub c: Vec<f64>,
    pub r: f64,
}

#[derive(Serialize, Deserialize, Clone, Debug, PartialEq, Default)]
pub struct WorldSpec {
    pub obstacles: Vec<Obstacle>,
    /// the metric shapes (balls, shells) are defined with the HARNESS's own implementation of
    /// the space metric (sqrt of the sum of squared weighted component distances, written
    /// independently of the library) instead of the library's `distance`: the simulated user's
    /// notion of where things are then does not inherit a defect of the library's metric
    #[serde(default)]
    pub harness_metric: bool,
}

#[derive(Serialize, Deserialize, Clone, Copy, Debug, PartialEq)]
pub enum GoalSampler {
    /// returns the target
    Fixed,
    /// harness-owned deterministic stream (ignores the planner's generator)
    Harness,
    /// consumes the planner's generator
    Planner,
    /// harness-owned stream; returns the target with only one component redrawn — the one the
    /// goal's component condition names, else the first component of weight 0 — so that goal
    /// samples lie at distance 0 from each other while differing in validity ("turn in place")
    Turn,
    /// harness-owned stream; like `Harness`, but every real-vector block of the draw is reflected
    /// through the target (2 t - x): the same distance from the target, and — for a target near a
    /// face of the box — frequently OUTSIDE the bounds of the space (a goal region that sticks out)
    Reflect,
    /// harness-owned stream; like `Harness`, but the draw keeps the target's rotational
    /// components bit for bit (a goal region of a pure-translation task)
    Translate,
    /// a stateful sampler: the i-th `sample_goal` call of the scenario returns `cycle[i mod n]`
    /// (a goal that hands out a fixed list of goal configurations in turn)
    Cycle,
}

#[derive(Serialize, Deserialize, Clone, Debug, PartialEq)]
pub struct GoalSpec {
    pub target: St,
    pub radius: f64,
    pub sampler: GoalSampler,
    pub sampler_seed: u64,
    /// the goal predicate measures with the harness's own metric (see `WorldSpec`)
    #[serde(default)]
    pub harness_metric: bool,
    /// the list the `Cycle` sampler hands out in turn (every entry inside the goal region)
    #[serde(default)]
    pub cycle: Vec<St>,
    /// additional requirement on one component (goal predicates that look at a component the
    /// space metric ignores); goal samples satisfy it
    #[serde(default, skip_serializing_if = "Option::is_none")]
    pub comp: Option<CompCond>,
}

#[derive(Serialize, Deserialize, Clone, Debug, PartialEq)]
pub struct ProblemSpec {
    pub starts: Vec<St>,
    pub goal: GoalSpec,
    pub world: usize,
    /// this problem's own state space (same kind and layout as the scenario's, other bounds /
    /// resolution); `None` = the scenario's space. A later `setup` may legitimately come with a
    /// different space object.
    #[serde(default, skip_serializing_if = "Option::is_none")]
    pub space: Option<SpaceSpec>,
}

#[derive(Serialize, Deserialize, Clone, Copy, Debug, PartialEq, Eq, Hash, PartialOrd, Ord)]
pub enum PlannerKind {
    RRT,
    RRTConnect,
    RRTStar,
    PRM,
}
impl PlannerKind {
    pub const ALL: [PlannerKind; 4] = [
        PlannerKind::RRT,
        PlannerKind::RRTConnect,
        PlannerKind::RRTStar,
        PlannerKind::PRM,
    ];
    pub fn name(&self) -> &'static str {
        match self {
            PlannerKind::RRT => "RRT",
            PlannerKind::RRTConnect => "RRTConnect",
            PlannerKind::RRTStar => "RRTStar",
            PlannerKind::PRM => "PRM",
        }
    }
}

#[derive(Serialize, Deserialize, Clone, Debug, PartialEq)]
pub struct PlannerSpec {
    pub kind: PlannerKind,
    #[serde(with = "fx")]
    pub max_distance: f64,
    #[serde(with = "fx")]
    pub goal_bias: f64,
    #[serde(with = "fx")]
    pub search_radius: f64,
    /// PRM: roadmap construction time in (virtual) seconds
    #[serde(with = "fx")]
    pub prm_timeout_s: f64,
    #[serde(with = "fx")]
    pub connection_radius: f64,
    pub seed: Option<u64>,
}

#[derive(Serialize, Deserialize, Clone, Debug, PartialEq)]
pub struct Sampling {
    /// states delivered by `sample_uniform` before falling back to the real sampler
    pub script: Vec<St>,
}

#[derive(Serialize, Deserialize, Clone, Copy, Debug, PartialEq, Eq)]
pub enum Phase {
    Sample,
    Valid,
    GoalSat,
}

#[derive(Serialize, Deserialize, Clone, Debug, PartialEq)]
pub struct Stall {
    pub at: Phase,
    /// 1-based: the n-th event of that phase within the call
    pub nth: u64,
    pub ns: u64,
}

#[derive(Serialize, Deserialize, Clone, Debug, PartialEq)]
pub struct ClockSpec {
    pub tick_ns: u64,
    /// cost patterns, cycled; empty = free
    pub cost_valid: Vec<u64>,
    pub cost_sample: Vec<u64>,
    pub cost_goal: Vec<u64>,
}

#[derive(Serialize, Deserialize, Clone, Debug, PartialEq)]
#[serde(tag = "op")]
pub enum CallSpec {
    New,
    Setup { problem: usize },
    SetProblem { problem: usize },
    Construct { stalls: Vec<Stall> },
    Solve { timeout_ns: u64, stalls: Vec<Stall> },
    /// The planner's public parameter fields are assigned between two calls (they are `pub`:
    /// `planner.goal_bias = 0.0;` is part of the API). Fields the planner kind does not have
    /// are ignored.
    SetParams { max_distance: f64, goal_bias: f64, search_radius: f64, connection_radius: f64, prm_timeout_s: f64 },
}

#[derive(Serialize, Deserialize, Clone, Debug, PartialEq)]
#[serde(tag = "kind")]
pub enum FaultSpec {
    /// the k-th (1-based, counted over the scenario) validity query answers `false` whatever the
    /// state: a callback whose answer depends on the call history (deterministic, not pure)
    ValidityFalseAt { at_call: u64 },
    /// the k-th validity query UNWINDS (the user's checker panics; the caller catches it and goes
    /// on using the planner): an interruption at an arbitrary instant inside a call
    ValidityPanicAt { at_call: u64 },
    /// the k-th (1-based, counted over the scenario) `sample_uniform` call returns Err
    UniformSamplerErr { at_call: u64 },
    /// the k-th `sample_goal` call returns Err
    GoalSamplerErr { at_call: u64 },
}

#[derive(Serialize, Deserialize, Clone, Debug, PartialEq)]
pub struct Expect {
    pub violation: String,
    pub event_hash: String,
}

#[derive(Serialize, Deserialize, Clone, Debug, PartialEq)]
pub struct Scenario {
    pub property: String,
    pub family: String,
    pub seed: u64,
    pub index: u64,
    pub space: SpaceSpec,
    pub worlds: Vec<WorldSpec>,
    pub problems: Vec<ProblemSpec>,
    pub planner: PlannerSpec,
    pub sampling: Sampling,
    pub clock: ClockSpec,
    pub calls: Vec<CallSpec>,
    pub faults: Vec<FaultSpec>,
    /// free-form per-check parameters (e.g. prefix-replay depth, twin kind)
    #[serde(default)]
    pub params: std::collections::BTreeMap<String, f64>,
    #[serde(default)]
    pub expect: Option<Expect>,
}

impl Scenario {
    pub fn hash(&self) -> u64 {
        let mut c = self.clone();
        c.expect = None;
        c.seed = 0;
        c.index = 0;
        let s = serde_json::to_string(&c).unwrap();
        let mut h = crate::prng::Fnv::default();
        h.bytes(s.as_bytes());
        h.0
    }
    pub fn param(&self, k: &str) -> Option<f64> {
        self.params.get(k).copied()
    }
    /// The planner parameters in force when call `ci` executes: the constructor's (every `New`
    /// builds the planner from `self.planner` again) overridden by the latest `SetParams`.
    pub fn planner_at(&self, ci: usize) -> PlannerSpec {
        let mut p = self.planner.clone();
        for c in self.calls.iter().take(ci) {
            match c {
                CallSpec::New => p = self.planner.clone(),
                CallSpec::SetParams { max_distance, goal_bias, search_radius, connection_radius, prm_timeout_s } => {
                    p.max_distance = *max_distance;
                    p.goal_bias = *goal_bias;
                    p.search_radius = *search_radius;
                    p.connection_radius = *connection_radius;
                    p.prm_timeout_s = *prm_timeout_s;
                }
                _ => {}
            }
        }
        p
    }
    /// Moves the scenario's planner parameters into a `SetParams` call right after the first
    /// `Setup` and gives the constructor other ones: the parameters in force at every later call
    /// are the original ones, but they were assigned after `new` and `setup`.
    pub fn reconfigure_after_setup(&mut self, ctor: PlannerSpec) {
        let Some(k) = self.calls.iter().position(|c| matches!(c, CallSpec::Setup { .. })) else { return };
        let p = self.planner.clone();
        self.calls.insert(k + 1, CallSpec::SetParams { max_distance: p.max_distance, goal_bias: p.goal_bias, search_radius: p.search_radius, connection_radius: p.connection_radius, prm_timeout_s: p.prm_timeout_s });
        self.planner = PlannerSpec { kind: p.kind, seed: p.seed, ..ctor };
        self.params.insert("reconfigured".into(), 1.0);
    }
}

pub const STALL_NS: u64 = 1_000_000_000_000_000; // 1e15 ns, far beyond every generated timeout
