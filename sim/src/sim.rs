//! The simulator: virtual clock wiring, event log, simulated user (space wrapper, goal, checker)
//! and the driver that executes a scenario's API-call history against the real planners.

use std::cell::RefCell;
use std::panic::{catch_unwind, AssertUnwindSafe};
use std::sync::Arc;
use std::time::Duration;

use oxmpl::base::error::{PlanningError, StateSamplingError};
use oxmpl::base::goal::{Goal, GoalRegion, GoalSampleableRegion};
use oxmpl::base::planner::{Planner, PlannerConfig};
use oxmpl::base::problem_definition::ProblemDefinition;
use oxmpl::base::space::StateSpace;
use oxmpl::base::validity::StateValidityChecker;
use oxmpl::geometric::{RRTConnect, RRTStar, PRM, RRT};
use rand::{Rng, RngCore};

use crate::prng::{Fnv, Xo};
use crate::spaces::{enc_of, layout, Comp, Raw};
use crate::spec::*;
use crate::world::TypedWorld;

// ------------------------------------------------------------------------------------------
// Event log

#[derive(Clone, Debug, PartialEq)]
pub enum ErrKind {
    Timeout,
    NoSolutionFound,
    PlannerUninitialised,
    InvalidStartState,
    UnsampledStateSpace,
}
impl ErrKind {
    pub fn name(&self) -> &'static str {
        match self {
            ErrKind::Timeout => "Timeout",
            ErrKind::NoSolutionFound => "NoSolutionFound",
            ErrKind::PlannerUninitialised => "PlannerUninitialised",
            ErrKind::InvalidStartState => "InvalidStartState",
            ErrKind::UnsampledStateSpace => "UnsampledStateSpace",
        }
    }
}
fn errkind(e: &PlanningError) -> ErrKind {
    match e {
        PlanningError::Timeout => ErrKind::Timeout,
        PlanningError::NoSolutionFound => ErrKind::NoSolutionFound,
        PlanningError::PlannerUninitialised => ErrKind::PlannerUninitialised,
        PlanningError::InvalidStartState => ErrKind::InvalidStartState,
        PlanningError::UnsampledStateSpace => ErrKind::UnsampledStateSpace,
    }
}

#[derive(Clone, Debug, PartialEq)]
pub enum Res {
    /// setup / set_problem_definition / construct_roadmap Ok / call not applicable to planner
    Unit,
    Skipped,
    Path(Vec<St>),
    Err(ErrKind),
    /// the planner (or a space primitive under it) unwound: message @ location
    Panic(String),
    /// the harness aborted the call (event cap = hang)
    Abort(String),
    /// the simulated user's callback unwound on purpose (fault injection) and the caller caught it
    UserPanic,
}
impl Res {
    pub fn short(&self) -> String {
        match self {
            Res::Unit => "Ok(())".into(),
            Res::Skipped => "skipped".into(),
            Res::Path(p) => format!("Ok(path[{}])", p.len()),
            Res::Err(e) => format!("Err({})", e.name()),
            Res::Panic(m) => format!("PANIC({m})"),
            Res::Abort(m) => format!("ABORT({m})"),
            Res::UserPanic => "the user's callback unwound (injected)".into(),
        }
    }
}

#[derive(Clone, Debug, PartialEq)]
pub enum Ev {
    Call(usize),
    Ret(usize),
    Clock(u64),
    SU(Option<St>),
    SG(Option<St>),
    Valid(St, bool),
    Sat(St, bool),
    /// `satisfies_bounds` answered false for this state (true answers are not recorded)
    OutOfBounds(St),
}
impl Ev {
    pub fn kind_byte(&self) -> u8 {
        match self {
            Ev::Call(_) => b'C',
            Ev::Ret(_) => b'R',
            Ev::Clock(_) => b'k',
            Ev::SU(Some(_)) => b'u',
            Ev::SU(None) => b'U',
            Ev::SG(Some(_)) => b'g',
            Ev::SG(None) => b'G',
            Ev::Valid(_, true) => b'v',
            Ev::Valid(_, false) => b'x',
            Ev::Sat(_, true) => b's',
            Ev::Sat(_, false) => b'n',
            Ev::OutOfBounds(_) => b'o',
        }
    }
    pub fn phase(&self) -> Option<Phase> {
        match self {
            Ev::SU(_) | Ev::SG(_) => Some(Phase::Sample),
            Ev::Valid(..) => Some(Phase::Valid),
            Ev::Sat(..) => Some(Phase::GoalSat),
            _ => None,
        }
    }
}

// ------------------------------------------------------------------------------------------
// Thread-local simulation context

pub struct Abort(pub String);
/// payload of an injected user-callback panic
pub struct UserPanic;

struct Ctx {
    log: Vec<Ev>,
    times: Vec<u64>,
    now: u64,
    script: Vec<St>,
    script_pos: usize,
    su_calls: u64,
    v_calls: u64,
    v_fault: Vec<u64>,
    v_panic: Vec<u64>,
    sg_calls: u64,
    su_fault: Vec<u64>,
    sg_fault: Vec<u64>,
    harness_goal_draws: u64,
    // per call
    n_phase: [u64; 3],
    stalls: Vec<Stall>,
    events_in_call: u64,
    events_since_check: u64,
    /// time limit of the running call, time of its first clock read, events since it passed
    limit_ns: Option<u64>,
    t0: Option<u64>,
    events_after_deadline: u64,
    samples_total: u64,
    queries_per_motion: f64,
    event_cap: u64,
    rng_word_cap: u64,
    // costs
    cost: [Vec<u64>; 3],
    cost_pos: [usize; 3],
    faults_fired: u64,
    stalls_fired: u64,
    in_call: bool,
}

thread_local! {
    static CTX: RefCell<Option<Ctx>> = const { RefCell::new(None) };
    static LAST_PANIC: RefCell<Option<String>> = const { RefCell::new(None) };
}

fn phase_idx(p: Phase) -> usize {
    match p {
        Phase::Sample => 0,
        Phase::Valid => 1,
        Phase::GoalSat => 2,
    }
}

/// Records one seam event: counts it, charges its virtual cost and any stall placed on it.
fn seam_event(ev: Ev) {
    let phase = ev.phase().expect("seam events have a phase");
    let (adv, over) = CTX.with(|c| {
        let mut g = c.borrow_mut();
        let c = g.as_mut().expect("harness: seam used outside a run");
        c.log.push(ev);
        let pi = phase_idx(phase);
        c.n_phase[pi] += 1;
        c.events_in_call += 1;
        c.events_since_check += 1;
        if pi == 0 {
            c.samples_total += 1;
        }
        let mut adv = 0u64;
        if !c.cost[pi].is_empty() {
            adv = c.cost[pi][c.cost_pos[pi] % c.cost[pi].len()];
            c.cost_pos[pi] += 1;
        }
        let n = c.n_phase[pi];
        let mut fired = 0;
        for s in &c.stalls {
            if s.at == phase && s.nth == n {
                adv = adv.saturating_add(s.ns);
                fired += 1;
            }
        }
        c.stalls_fired += fired;
        c.now = c.now.saturating_add(adv);
        c.times.push(c.now);
        // bounded liveness: events since the last deadline check (or the start of the call) may
        // not exceed 100x the analytic maximum of one iteration, (4 + 2*nodes) motion checks
        let cap = (100.0 * (4.0 + 2.0 * c.samples_total as f64) * (c.queries_per_motion + 2.0)).min(c.event_cap as f64);
        // ... and once the time limit has passed, the call must return within the same bound
        if let (Some(t0), Some(lim)) = (c.t0, c.limit_ns) {
            if c.now.saturating_sub(t0) > lim {
                c.events_after_deadline += 1;
            }
        }
        (adv, c.in_call && (c.events_since_check as f64 > cap || c.events_after_deadline as f64 > cap))
    });
    if adv > 0 {
        oxmpl::verif::advance(adv);
    }
    if over {
        std::panic::panic_any(Abort("event cap exceeded (since the last deadline check, or since the time limit passed): no progress to a return".into()));
    }
}

struct CountingRng<'a, T: RngCore> {
    inner: &'a mut T,
    words: u64,
    cap: u64,
}
impl<T: RngCore> CountingRng<'_, T> {
    fn tick(&mut self) {
        self.words += 1;
        if self.words > self.cap {
            std::panic::panic_any(Abort("sampler drew more random words than any configuration can need".into()));
        }
    }
}
impl<T: RngCore> RngCore for CountingRng<'_, T> {
    fn next_u32(&mut self) -> u32 {
        self.tick();
        self.inner.next_u32()
    }
    fn next_u64(&mut self) -> u64 {
        self.tick();
        self.inner.next_u64()
    }
    fn fill_bytes(&mut self, dest: &mut [u8]) {
        self.tick();
        self.inner.fill_bytes(dest)
    }
}

// ------------------------------------------------------------------------------------------
// Simulated user objects

pub struct SimSpace<R: Raw> {
    pub inner: R,
    pub lay: Vec<Comp>,
}

impl<R: Raw> StateSpace for SimSpace<R> {
    type StateType = R::StateType;
    fn distance(&self, a: &Self::StateType, b: &Self::StateType) -> f64 {
        self.inner.distance(a, b)
    }
    fn interpolate(&self, from: &Self::StateType, to: &Self::StateType, t: f64, out: &mut Self::StateType) {
        self.inner.interpolate(from, to, t, out)
    }
    fn enforce_bounds(&self, s: &mut Self::StateType) {
        self.inner.enforce_bounds(s)
    }
    fn satisfies_bounds(&self, s: &Self::StateType) -> bool {
        let ans = self.inner.satisfies_bounds(s);
        if !ans {
            CTX.with(|c| {
                if let Some(c) = c.borrow_mut().as_mut() {
                    c.log.push(Ev::OutOfBounds(enc_of::<R>(s)));
                    let now = c.now;
                    c.times.push(now);
                }
            });
        }
        ans
    }
    fn sample_uniform(&self, rng: &mut impl Rng) -> Result<Self::StateType, StateSamplingError> {
        let (fault, scripted, cap) = CTX.with(|c| {
            let mut g = c.borrow_mut();
            let c = g.as_mut().expect("harness: seam used outside a run");
            c.su_calls += 1;
            let fault = c.su_fault.contains(&c.su_calls);
            if fault {
                c.faults_fired += 1;
            }
            let scripted = if !fault && c.script_pos < c.script.len() {
                c.script_pos += 1;
                Some(c.script[c.script_pos - 1].clone())
            } else {
                None
            };
            (fault, scripted, c.rng_word_cap)
        });
        if fault {
            seam_event(Ev::SU(None));
            return Err(StateSamplingError::ZeroVolume);
        }
        let r = match scripted {
            Some(v) => Ok(R::dec(&self.lay, &v)),
            None => {
                let mut cr = CountingRng { inner: rng, words: 0, cap };
                self.inner.sample_uniform(&mut cr)
            }
        };
        match r {
            Ok(s) => {
                seam_event(Ev::SU(Some(enc_of::<R>(&s))));
                Ok(s)
            }
            Err(e) => {
                seam_event(Ev::SU(None));
                Err(e)
            }
        }
    }
    fn get_longest_valid_segment_length(&self) -> f64 {
        self.inner.get_longest_valid_segment_length()
    }
}

pub struct SimGoal<R: Raw> {
    pub inner: R,
    pub lay: Vec<Comp>,
    pub target: R::StateType,
    pub radius: f64,
    pub sampler: GoalSampler,
    pub seed: u64,
    /// (offset, component kind, centre, radius) of the component condition, if any
    pub comp: Option<(usize, Comp, Vec<f64>, f64)>,
    /// (offset, component kind) redrawn by the `Turn` sampler
    pub turn: Option<(usize, Comp)>,
    /// metric weight of every layout component
    pub weights: Vec<f64>,
    /// states the `Cycle` sampler hands out in turn
    pub cycle: Vec<Vec<f64>>,
    /// Some: the predicate measures with the harness's own metric (target as a flat state)
    pub hm: Option<(crate::spaces::HMetric, Vec<f64>)>,
}

impl<R: Raw> SimGoal<R> {
    fn comp_ok(&self, s: &R::StateType) -> bool {
        match &self.comp {
            None => true,
            Some((off, kind, c, r)) => {
                let v = enc_of::<R>(s);
                crate::spaces::comp_dist(kind, &v[*off..*off + kind.width()], c) <= *r
            }
        }
    }
    /// Goal samples satisfy the component condition: the drawn state's component is kept when it
    /// already lies well inside, otherwise replaced by a perturbation of the centre (SO(2), R^n)
    /// or by the centre itself.
    fn fit_comp(&self, s: R::StateType, rng: &mut impl Rng) -> R::StateType {
        let Some((off, kind, c, r)) = &self.comp else { return s };
        let mut v = enc_of::<R>(&s);
        let w = kind.width();
        if crate::spaces::comp_dist(kind, &v[*off..*off + w], c) <= 0.9 * r {
            return s;
        }
        let f: f64 = rng.random::<f64>();
        match kind {
            Comp::SO2 => {
                let x = c[0] + (2.0 * f - 1.0) * 0.9 * r;
                v[*off] = (x + std::f64::consts::PI).rem_euclid(2.0 * std::f64::consts::PI) - std::f64::consts::PI;
            }
            Comp::RV(n) => {
                // a point at distance f * 0.9 r along the direction from the centre to the draw
                let d = crate::spaces::comp_dist(kind, &v[*off..*off + w], c);
                for i in 0..*n {
                    v[*off + i] = if d > 0.0 && d.is_finite() { c[i] + (v[*off + i] - c[i]) / d * f * 0.9 * r } else { c[i] };
                }
            }
            Comp::SO3 => v[*off..*off + w].copy_from_slice(c),
        }
        if crate::spaces::comp_dist(kind, &v[*off..*off + w], c) > 0.95 * r {
            v[*off..*off + w].copy_from_slice(c);
        }
        R::dec(&self.lay, &v)
    }
    /// A state at distance <= 0.99 * radius from the target (never on the rim).
    fn draw(&self, rng: &mut impl Rng) -> R::StateType {
        let u = match self.inner.sample_uniform(rng) {
            Ok(u) => u,
            Err(_) => return self.target.clone(),
        };
        let f: f64 = rng.random::<f64>();
        let d = self.inner.distance(&self.target, &u);
        let lim = 0.99 * self.radius;
        let out = if d <= lim {
            u
        } else {
            let mut o = self.target.clone();
            self.inner.interpolate(&self.target, &u, (lim * f / d).clamp(0.0, 1.0), &mut o);
            o
        };
        if self.inner.distance(&self.target, &out) <= lim * (1.0 + 1e-3) {
            out
        } else {
            self.target.clone()
        }
    }
}

impl<R: Raw> Goal<R::StateType> for SimGoal<R> {
    fn is_satisfied(&self, s: &R::StateType) -> bool {
        let d = match &self.hm {
            Some((h, t)) => h.d(t, &enc_of::<R>(s)),
            None => self.inner.distance(&self.target, s),
        };
        let ans = d <= self.radius && self.comp_ok(s);
        seam_event(Ev::Sat(enc_of::<R>(s), ans));
        ans
    }
}
impl<R: Raw> GoalRegion<R::StateType> for SimGoal<R> {
    fn distance_goal(&self, s: &R::StateType) -> f64 {
        (self.inner.distance(&self.target, s) - self.radius).max(0.0)
    }
}
impl<R: Raw> GoalSampleableRegion<R::StateType> for SimGoal<R> {
    fn sample_goal(&self, rng: &mut impl Rng) -> Result<R::StateType, StateSamplingError> {
        let (fault, draw_no, cap) = CTX.with(|c| {
            let mut g = c.borrow_mut();
            let c = g.as_mut().expect("harness: seam used outside a run");
            c.sg_calls += 1;
            let fault = c.sg_fault.contains(&c.sg_calls);
            if fault {
                c.faults_fired += 1;
            }
            c.harness_goal_draws += 1;
            (fault, c.harness_goal_draws, c.rng_word_cap)
        });
        if fault {
            seam_event(Ev::SG(None));
            return Err(StateSamplingError::GoalSamplingTimeout { attempts: 0 });
        }
        let s = match self.sampler {
            GoalSampler::Fixed => self.target.clone(),
            GoalSampler::Harness => {
                let mut x = Xo::new(crate::prng::mix(self.seed, "goal", draw_no));
                let s = self.draw(&mut x);
                self.fit_comp(s, &mut x)
            }
            GoalSampler::Cycle => {
                if self.cycle.is_empty() {
                    self.target.clone()
                } else {
                    R::dec(&self.lay, &self.cycle[((draw_no - 1) as usize) % self.cycle.len()])
                }
            }
            GoalSampler::Translate => {
                let mut x = Xo::new(crate::prng::mix(self.seed, "goal", draw_no));
                let s = self.draw(&mut x);
                let s = self.fit_comp(s, &mut x);
                let (mut v, t) = (enc_of::<R>(&s), enc_of::<R>(&self.target));
                let mut off = 0;
                for c in &self.lay {
                    if matches!(c, Comp::SO2 | Comp::SO3) {
                        v[off..off + c.width()].copy_from_slice(&t[off..off + c.width()]);
                    }
                    off += c.width();
                }
                // measured with the harness's own metric: the library's may be what is broken
                let hm = crate::spaces::HMetric { lay: self.lay.clone(), w: self.weights.clone() };
                if hm.d(&t, &v) <= 0.99 * self.radius * (1.0 + 1e-3) {
                    let r = R::dec(&self.lay, &v);
                    if self.comp_ok(&r) { r } else { s }
                } else {
                    s
                }
            }
            GoalSampler::Reflect => {
                let mut x = Xo::new(crate::prng::mix(self.seed, "goal", draw_no));
                let s = self.draw(&mut x);
                let s = self.fit_comp(s, &mut x);
                let (mut v, t) = (enc_of::<R>(&s), enc_of::<R>(&self.target));
                let mut off = 0;
                for c in &self.lay {
                    if let Comp::RV(n) = c {
                        for i in off..off + n {
                            v[i] = 2.0 * t[i] - v[i];
                        }
                    }
                    off += c.width();
                }
                let r = R::dec(&self.lay, &v);
                // the reflected state must satisfy the goal bit-robustly, like every goal sample
                if self.inner.distance(&self.target, &r) <= 0.99 * self.radius * (1.0 + 1e-3) && self.comp_ok(&r) {
                    r
                } else {
                    s
                }
            }
            GoalSampler::Turn => {
                let mut x = Xo::new(crate::prng::mix(self.seed, "goal", draw_no));
                match (&self.turn, self.inner.sample_uniform(&mut x)) {
                    (Some((off, kind)), Ok(u)) => {
                        let mut v = enc_of::<R>(&self.target);
                        let uv = enc_of::<R>(&u);
                        let w = kind.width();
                        v[*off..*off + w].copy_from_slice(&uv[*off..*off + w]);
                        let s = R::dec(&self.lay, &v);
                        self.fit_comp(s, &mut x)
                    }
                    _ => {
                        let s = self.draw(&mut x);
                        self.fit_comp(s, &mut x)
                    }
                }
            }
            GoalSampler::Planner => {
                let mut cr = CountingRng { inner: rng, words: 0, cap };
                let s = self.draw(&mut cr);
                self.fit_comp(s, &mut cr)
            }
        };
        seam_event(Ev::SG(Some(enc_of::<R>(&s))));
        Ok(s)
    }
}

pub struct SimChecker<R: Raw> {
    pub inner: R,
    pub world: TypedWorld<R>,
}
impl<R: Raw> StateValidityChecker<R::StateType> for SimChecker<R> {
    fn is_valid(&self, s: &R::StateType) -> bool {
        let flip = CTX.with(|c| {
            let mut g = c.borrow_mut();
            let c = g.as_mut().expect("harness: seam used outside a run");
            c.v_calls += 1;
            let f = c.v_fault.contains(&c.v_calls);
            if f {
                c.faults_fired += 1;
            }
            let boom = c.v_panic.contains(&c.v_calls);
            if boom {
                c.faults_fired += 1;
            }
            (f, boom)
        });
        let (flip, boom) = flip;
        if boom {
            std::panic::panic_any(UserPanic);
        }
        let ans = !flip && self.world.valid(&self.inner, s);
        seam_event(Ev::Valid(enc_of::<R>(s), ans));
        ans
    }
}

// ------------------------------------------------------------------------------------------
// Planner under test (real code), behind one enum

type S<R> = <R as StateSpace>::StateType;
type Pd<R> = ProblemDefinition<S<R>, SimSpace<R>, SimGoal<R>>;

pub enum AnyPlanner<R: Raw> {
    Rrt(RRT<S<R>, SimSpace<R>, SimGoal<R>>),
    Connect(RRTConnect<S<R>, SimSpace<R>, SimGoal<R>>),
    Star(RRTStar<S<R>, SimSpace<R>, SimGoal<R>>),
    Prm(PRM<S<R>, SimSpace<R>, SimGoal<R>>),
}

#[derive(Clone, Debug, PartialEq)]
pub enum Snap {
    Tree(Vec<(St, Option<usize>)>),
    Star(Vec<(St, Option<usize>, f64)>),
    Connect(Vec<(St, Option<usize>)>, Vec<(St, Option<usize>)>),
    Prm(Vec<(St, Vec<usize>)>),
}
impl Snap {
    pub fn node_count(&self) -> usize {
        match self {
            Snap::Tree(t) => t.len(),
            Snap::Star(t) => t.len(),
            Snap::Connect(a, b) => a.len() + b.len(),
            Snap::Prm(r) => r.len(),
        }
    }
    /// structure only (no floats): used for the distinct-tree-shape coverage measure
    pub fn shape_hash(&self) -> u64 {
        let mut h = Fnv::default();
        let mut tree = |t: &Vec<(St, Option<usize>)>| {
            for (_, p) in t {
                h.u64(p.map(|x| x as u64 + 1).unwrap_or(0));
            }
            h.u64(u64::MAX);
        };
        match self {
            Snap::Tree(t) => tree(t),
            Snap::Star(t) => tree(&t.iter().map(|(s, p, _)| (s.clone(), *p)).collect()),
            Snap::Connect(a, b) => {
                tree(a);
                tree(b)
            }
            Snap::Prm(r) => {
                for (_, e) in r {
                    for x in e {
                        h.u64(*x as u64);
                    }
                    h.u64(u64::MAX);
                }
            }
        }
        h.0
    }
}

impl<R: Raw> AnyPlanner<R> {
    fn new(p: &PlannerSpec) -> Self {
        let cfg = PlannerConfig { seed: p.seed };
        match p.kind {
            PlannerKind::RRT => AnyPlanner::Rrt(RRT::new(p.max_distance, p.goal_bias, &cfg)),
            PlannerKind::RRTConnect => AnyPlanner::Connect(RRTConnect::new(p.max_distance, p.goal_bias, &cfg)),
            PlannerKind::RRTStar => AnyPlanner::Star(RRTStar::new(p.max_distance, p.goal_bias, p.search_radius, &cfg)),
            PlannerKind::PRM => AnyPlanner::Prm(PRM::new(p.prm_timeout_s, p.connection_radius, &cfg)),
        }
    }
    fn set_params(&mut self, max_distance: f64, goal_bias: f64, search_radius: f64, connection_radius: f64, prm_timeout_s: f64) {
        match self {
            AnyPlanner::Rrt(p) => {
                p.max_distance = max_distance;
                p.goal_bias = goal_bias;
            }
            AnyPlanner::Connect(p) => {
                p.max_distance = max_distance;
                p.goal_bias = goal_bias;
            }
            AnyPlanner::Star(p) => {
                p.max_distance = max_distance;
                p.goal_bias = goal_bias;
                p.search_radius = search_radius;
            }
            AnyPlanner::Prm(p) => {
                p.timeout = prm_timeout_s;
                p.connection_radius = connection_radius;
            }
        }
    }
    fn setup(&mut self, pd: Arc<Pd<R>>, vc: Arc<dyn StateValidityChecker<S<R>>>) {
        match self {
            AnyPlanner::Rrt(p) => p.setup(pd, vc),
            AnyPlanner::Connect(p) => p.setup(pd, vc),
            AnyPlanner::Star(p) => p.setup(pd, vc),
            AnyPlanner::Prm(p) => p.setup(pd, vc),
        }
    }
    fn solve(&mut self, t: Duration) -> Result<Vec<St>, PlanningError> {
        let r = match self {
            AnyPlanner::Rrt(p) => p.solve(t),
            AnyPlanner::Connect(p) => p.solve(t),
            AnyPlanner::Star(p) => p.solve(t),
            AnyPlanner::Prm(p) => p.solve(t),
        };
        r.map(|path| path.0.iter().map(|s| enc_of::<R>(s)).collect())
    }
    fn snapshot(&self) -> Snap {
        let e = |s: &S<R>| enc_of::<R>(s);
        match self {
            AnyPlanner::Rrt(p) => Snap::Tree(p.verif_tree().iter().map(|(s, q)| (e(s), *q)).collect()),
            AnyPlanner::Star(p) => Snap::Star(p.verif_tree().iter().map(|(s, q, c)| (e(s), *q, *c)).collect()),
            AnyPlanner::Connect(p) => {
                let (a, b) = p.verif_trees();
                Snap::Connect(
                    a.iter().map(|(s, q)| (e(s), *q)).collect(),
                    b.iter().map(|(s, q)| (e(s), *q)).collect(),
                )
            }
            AnyPlanner::Prm(p) => Snap::Prm(p.verif_roadmap().iter().map(|(s, ed)| (e(s), ed.clone())).collect()),
        }
    }
}

// ------------------------------------------------------------------------------------------
// Driver

#[derive(Clone, Debug)]
pub struct CallOut {
    pub res: Res,
    pub ev_lo: usize,
    pub ev_hi: usize,
    pub snap: Option<Snap>,
    pub t_start: u64,
    pub t_end: u64,
}

#[derive(Clone, Debug)]
pub struct Outcome {
    pub calls: Vec<CallOut>,
    pub log: Vec<Ev>,
    /// virtual time after each event (same length as `log`)
    pub times: Vec<u64>,
    pub sim_ns: u64,
    pub faults_fired: u64,
    pub stalls_fired: u64,
    pub build_error: Option<String>,
}

impl Outcome {
    pub fn event_hash(&self) -> u64 {
        let mut h = Fnv::default();
        for e in &self.log {
            h.byte(e.kind_byte());
            match e {
                Ev::Call(i) | Ev::Ret(i) => h.u64(*i as u64),
                Ev::Clock(t) => h.u64(*t),
                Ev::SU(Some(s)) | Ev::SG(Some(s)) | Ev::Valid(s, _) | Ev::Sat(s, _) | Ev::OutOfBounds(s) => {
                    for x in s {
                        h.f64(*x)
                    }
                }
                _ => {}
            }
        }
        for c in &self.calls {
            match &c.res {
                Res::Path(p) => {
                    for s in p {
                        for x in s {
                            h.f64(*x)
                        }
                    }
                }
                other => h.bytes(other.short().as_bytes()),
            }
        }
        h.0
    }
    /// record kinds and boolean answers only (no floats, no times)
    pub fn kind_trace_hash(&self) -> u64 {
        let mut h = Fnv::default();
        for e in &self.log {
            h.byte(e.kind_byte());
        }
        h.0
    }
}

#[derive(Clone, Copy, Debug)]
pub struct RunOpts {
    pub snapshots: bool,
    pub event_cap: u64,
}
impl Default for RunOpts {
    fn default() -> Self {
        RunOpts { snapshots: true, event_cap: 5_000_000 }
    }
}

pub fn install_panic_hook() {
    std::panic::set_hook(Box::new(|info| {
        if info.payload().downcast_ref::<Abort>().is_some() || info.payload().downcast_ref::<UserPanic>().is_some() {
            return;
        }
        let msg = if let Some(s) = info.payload().downcast_ref::<&str>() {
            s.to_string()
        } else if let Some(s) = info.payload().downcast_ref::<String>() {
            s.clone()
        } else {
            "<non-string panic>".to_string()
        };
        let loc = info.location().map(|l| format!("{}:{}", l.file(), l.line())).unwrap_or_default();
        let in_run = CTX.with(|c| c.try_borrow().map(|g| g.is_some()).unwrap_or(true));
        if in_run {
            LAST_PANIC.with(|p| *p.borrow_mut() = Some(format!("{msg} @ {loc}")));
        } else {
            eprintln!("harness panic: {msg} @ {loc}");
        }
    }));
}

fn guarded<T>(f: impl FnOnce() -> T) -> Result<T, Res> {
    LAST_PANIC.with(|p| *p.borrow_mut() = None);
    match catch_unwind(AssertUnwindSafe(f)) {
        Ok(v) => Ok(v),
        Err(payload) => {
            if let Some(a) = payload.downcast_ref::<Abort>() {
                Err(Res::Abort(a.0.clone()))
            } else if payload.downcast_ref::<UserPanic>().is_some() {
                Err(Res::UserPanic)
            } else {
                let m = LAST_PANIC.with(|p| p.borrow_mut().take()).unwrap_or_else(|| "<unknown panic>".into());
                // strip absolute path prefixes so signatures are stable
                Err(Res::Panic(m))
            }
        }
    }
}

pub fn run(scn: &Scenario, opts: &RunOpts) -> Outcome {
    crate::with_raw!(&scn.space, run_typed(scn, opts))
}

fn run_typed<R: Raw>(scn: &Scenario, opts: &RunOpts) -> Outcome {
    let lay = layout(&scn.space);
    let inner = match R::build(&scn.space) {
        Ok(s) => s,
        Err(e) => {
            return Outcome {
                calls: vec![],
                log: vec![],
                times: vec![],
                sim_ns: 0,
                faults_fired: 0,
                stalls_fired: 0,
                build_error: Some(e),
            }
        }
    };
    let mut su_fault = vec![];
    let mut sg_fault = vec![];
    let mut v_fault = vec![];
    let mut v_panic = vec![];
    for f in &scn.faults {
        match f {
            FaultSpec::UniformSamplerErr { at_call } => su_fault.push(*at_call),
            FaultSpec::GoalSamplerErr { at_call } => sg_fault.push(*at_call),
            FaultSpec::ValidityFalseAt { at_call } => v_fault.push(*at_call),
            FaultSpec::ValidityPanicAt { at_call } => v_panic.push(*at_call),
        }
    }
    CTX.with(|c| {
        *c.borrow_mut() = Some(Ctx {
            log: Vec::with_capacity(1024),
            times: Vec::with_capacity(1024),
            now: 0,
            script: scn.sampling.script.clone(),
            script_pos: 0,
            su_calls: 0,
            sg_calls: 0,
            su_fault,
            sg_fault,
            v_fault,
            v_panic,
            v_calls: 0,
            harness_goal_draws: 0,
            n_phase: [0; 3],
            stalls: vec![],
            events_in_call: 0,
            events_since_check: 0,
            limit_ns: None,
            t0: None,
            events_after_deadline: 0,
            samples_total: 0,
            queries_per_motion: {
                let mut l = inner.get_longest_valid_segment_length();
                for p in &scn.problems {
                    if let Some(Ok(i2)) = p.space.as_ref().map(|sp| R::build(sp)) {
                        l = l.min(i2.get_longest_valid_segment_length());
                    }
                }
                let dmax = 2.0 * scn.param("ext").unwrap_or(10.0);
                if l > 0.0 && l.is_finite() { (dmax / (0.1 * l)).ceil() } else { 1e9 }
            },
            event_cap: opts.event_cap,
            rng_word_cap: 4_000_000,
            cost: [scn.clock.cost_sample.clone(), scn.clock.cost_valid.clone(), scn.clock.cost_goal.clone()],
            cost_pos: [0; 3],
            faults_fired: 0,
            stalls_fired: 0,
            in_call: false,
        })
    });
    oxmpl::verif::install(scn.clock.tick_ns, Vec::new());
    oxmpl::verif::set_observer(Some(Box::new(|_idx, now| {
        CTX.with(|c| {
            if let Some(c) = c.borrow_mut().as_mut() {
                c.log.push(Ev::Clock(now));
                c.now = now;
                c.times.push(now);
                c.events_in_call += 1;
                c.events_since_check = 0;
                if c.t0.is_none() {
                    c.t0 = Some(now);
                }
            }
        })
    })));

    let space = Arc::new(SimSpace::<R> { inner: inner.clone(), lay: lay.clone() });
    // a problem may come with its own space object (same layout, other bounds / resolution)
    let mut pspaces: Vec<(R, Arc<SimSpace<R>>)> = Vec::new();
    for p in &scn.problems {
        match &p.space {
            None => pspaces.push((inner.clone(), space.clone())),
            Some(sp) => match R::build(sp) {
                Ok(i2) if layout(sp) == lay => pspaces.push((i2.clone(), Arc::new(SimSpace::<R> { inner: i2, lay: lay.clone() }))),
                _ => pspaces.push((inner.clone(), space.clone())),
            },
        }
    }
    let mut planner: AnyPlanner<R> = AnyPlanner::new(&scn.planner);
    let mut calls: Vec<CallOut> = Vec::new();
    let mut dead = false;
    let mut checkers: Vec<Option<Arc<dyn StateValidityChecker<S<R>>>>> = Vec::new();

    // What a user who keeps his objects around does: the same `Arc<ProblemDefinition>` is handed
    // to every setup / set_problem_definition of one problem, and problems with identical goal
    // specifications over the same space object share one goal object (a new start, the old
    // goal). Scenarios with the parameter `fresh_objects` build everything anew on every call.
    let fresh_objects = scn.param("fresh_objects") == Some(1.0);
    let pd_cache: std::cell::RefCell<Vec<Option<Arc<Pd<R>>>>> = std::cell::RefCell::new(vec![None; scn.problems.len()]);
    let goal_cache: std::cell::RefCell<Vec<(usize, Arc<SimGoal<R>>)>> = std::cell::RefCell::new(Vec::new());
    let make_pd = |pi: usize| -> Arc<Pd<R>> {
        let p = &scn.problems[pi];
        if !fresh_objects {
            if let Some(pd) = &pd_cache.borrow()[pi] {
                return pd.clone();
            }
        }
        let shared_goal = if fresh_objects {
            None
        } else {
            goal_cache.borrow().iter().find(|(pj, _)| scn.problems[*pj].goal == p.goal && Arc::ptr_eq(&pspaces[*pj].1, &pspaces[pi].1)).map(|(_, g)| g.clone())
        };
        let pd = Arc::new(ProblemDefinition {
            // (`fresh_objects`: also a space object of its own — equal, separately allocated)
            space: if fresh_objects { Arc::new(SimSpace::<R> { inner: pspaces[pi].0.clone(), lay: lay.clone() }) } else { pspaces[pi].1.clone() },
            start_states: p.starts.iter().map(|s| R::dec(&lay, s)).collect(),
            goal: shared_goal.unwrap_or_else(|| {
              let g = Arc::new(SimGoal::<R> {
                inner: pspaces[pi].0.clone(),
                lay: lay.clone(),
                target: R::dec(&lay, &p.goal.target),
                radius: p.goal.radius,
                sampler: p.goal.sampler,
                seed: p.goal.sampler_seed,
                comp: p.goal.comp.as_ref().map(|cc| (crate::spaces::comp_offset(&lay, cc.comp), lay[cc.comp], cc.c.clone(), cc.r)),
                turn: {
                    let ws = crate::spaces::comp_weights(&scn.space);
                    let k = p.goal.comp.as_ref().map(|cc| cc.comp).or_else(|| (0..lay.len()).find(|i| ws[*i] == 0.0));
                    k.map(|k| (crate::spaces::comp_offset(&lay, k), lay[k]))
                },
                weights: crate::spaces::comp_weights(&scn.space),
                cycle: p.goal.cycle.clone(),
                hm: if p.goal.harness_metric { Some((crate::spaces::HMetric::new(&scn.space), p.goal.target.clone())) } else { None },
              });
              goal_cache.borrow_mut().push((pi, g.clone()));
              g
            }),
        });
        pd_cache.borrow_mut()[pi] = Some(pd.clone());
        pd
    };

    for (ci, call) in scn.calls.iter().enumerate() {
        if dead {
            break;
        }
        let ev_lo = CTX.with(|c| {
            let mut g = c.borrow_mut();
            let c = g.as_mut().unwrap();
            c.log.push(Ev::Call(ci));
            let now = c.now;
            c.times.push(now);
            c.n_phase = [0; 3];
            c.events_in_call = 0;
            c.events_since_check = 0;
            c.t0 = None;
            c.events_after_deadline = 0;
            c.limit_ns = match call {
                CallSpec::Solve { timeout_ns, .. } => Some(*timeout_ns),
                CallSpec::Construct { .. } => {
                    let t = scn.planner_at(ci).prm_timeout_s * 1e9;
                    if t >= 0.0 && t < 1e18 { Some(t.ceil() as u64) } else { None }
                }
                _ => None,
            };
            c.in_call = true;
            c.stalls = match call {
                CallSpec::Solve { stalls, .. } | CallSpec::Construct { stalls } => stalls.clone(),
                _ => vec![],
            };
            c.log.len() - 1
        });
        let t_start = oxmpl::verif::now_ns().unwrap_or(0);
        let res: Res = match call {
            CallSpec::New => {
                planner = AnyPlanner::new(&scn.planner);
                Res::Unit
            }
            CallSpec::SetParams { max_distance, goal_bias, search_radius, connection_radius, prm_timeout_s } => {
                planner.set_params(*max_distance, *goal_bias, *search_radius, *connection_radius, *prm_timeout_s);
                Res::Unit
            }
            CallSpec::Setup { problem } => {
                let pd = make_pd(*problem);
                // one checker object per world, handed out again on every setup with that world
                // (what a user who keeps his checker around does)
                let wi = scn.problems[*problem].world;
                if checkers.len() <= wi {
                    checkers.resize(wi + 1, None);
                }
                let vc: Arc<dyn StateValidityChecker<S<R>>> = checkers[wi]
                    .get_or_insert_with(|| Arc::new(SimChecker::<R> { inner: inner.clone(), world: TypedWorld::new(&scn.space, &scn.worlds[wi]) }))
                    .clone();
                match guarded(|| planner.setup(pd, vc)) {
                    Ok(()) => Res::Unit,
                    Err(r) => r,
                }
            }
            CallSpec::SetProblem { problem } => match &mut planner {
                AnyPlanner::Prm(p) => {
                    let pd = make_pd(*problem);
                    match guarded(|| p.set_problem_definition(pd)) {
                        Ok(()) => Res::Unit,
                        Err(r) => r,
                    }
                }
                _ => Res::Skipped,
            },
            CallSpec::Construct { .. } => match &mut planner {
                AnyPlanner::Prm(p) => match guarded(|| p.construct_roadmap()) {
                    Ok(Ok(())) => Res::Unit,
                    Ok(Err(e)) => Res::Err(errkind(&e)),
                    Err(r) => r,
                },
                _ => Res::Skipped,
            },
            CallSpec::Solve { timeout_ns, .. } => {
                match guarded(|| planner.solve(Duration::from_nanos(*timeout_ns))) {
                    Ok(Ok(p)) => Res::Path(p),
                    Ok(Err(e)) => Res::Err(errkind(&e)),
                    Err(r) => r,
                }
            }
        };
        if matches!(res, Res::Panic(_) | Res::Abort(_)) {
            // (`resume_after_setup_panic`: the caller catches a panic raised inside setup — an
            // injected sampler failure that setup unwraps — and goes on using the planner)
            let resume = matches!(res, Res::Panic(_)) && matches!(call, CallSpec::Setup { .. }) && scn.param("resume_after_setup_panic") == Some(1.0);
            if !resume {
                dead = true;
            }
        }
        // An injected user panic was caught by the caller, who goes on using the planner — but only
        // where that does not make the run depend on OS entropy (the interrupted call had taken
        // the seeded generator): a PRM whose roadmap is still empty would sample again.
        if matches!(res, Res::UserPanic) {
            // (`panic_resume` scenarios are built so that nothing depends on the planner's
            // generator: scripted samples, goal bias exactly 0 or 1)
            let keep = scn.param("panic_resume") == Some(1.0) || (matches!(&planner, AnyPlanner::Prm(_)) && matches!(guarded(|| planner.snapshot()), Ok(Snap::Prm(ref rm)) if !rm.is_empty()));
            if !keep {
                dead = true;
            }
        }
        let t_end = oxmpl::verif::now_ns().unwrap_or(0);
        let ev_hi = CTX.with(|c| {
            let mut g = c.borrow_mut();
            let c = g.as_mut().unwrap();
            c.in_call = false;
            c.log.push(Ev::Ret(ci));
            let now = c.now;
            c.times.push(now);
            c.log.len()
        });
        let snap = if opts.snapshots && !dead {
            guarded(|| planner.snapshot()).ok()
        } else {
            None
        };
        calls.push(CallOut { res, ev_lo, ev_hi, snap, t_start, t_end });
    }

    let sim_ns = oxmpl::verif::now_ns().unwrap_or(0);
    oxmpl::verif::set_observer(None);
    oxmpl::verif::uninstall();
    // drop the planner while the context still exists (Drop impls of user objects are trivial,
    // but keep the order explicit)
    drop(planner);
    let ctx = CTX.with(|c| c.borrow_mut().take()).unwrap();
    Outcome {
        calls,
        log: ctx.log,
        times: ctx.times,
        sim_ns,
        faults_fired: ctx.faults_fired,
        stalls_fired: ctx.stalls_fired,
        build_error: None,
    }
}

/// The problem installed when call `ci` executes (most recent Setup / SetProblem before it;
/// SetProblem only counts for PRM), and the event index of the most recent Setup.
pub fn installed_problem(scn: &Scenario, out: &Outcome, ci: usize) -> Option<(usize, usize)> {
    let mut prob = None;
    let mut setup_ev = 0;
    for j in 0..ci {
        match &scn.calls[j] {
            CallSpec::New => {
                prob = None;
            }
            CallSpec::Setup { problem } => {
                prob = Some(*problem);
                setup_ev = out.calls.get(j).map(|c| c.ev_lo).unwrap_or(0);
            }
            CallSpec::SetProblem { problem } if scn.planner.kind == PlannerKind::PRM => {
                prob = Some(*problem);
            }
            _ => {}
        }
    }
    prob.map(|p| (p, setup_ev))
}
