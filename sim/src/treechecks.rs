//! C15 / C16 / C17 — per-iteration tree invariants and transition oracles.
//!
//! Driver: *prefix replay*. The same scenario is run with the virtual-clock stall placed at
//! iteration 1, 2, ..., n, each on a fresh planner; run i yields the tree T_i after exactly i
//! iterations. Because the first solve of a fresh seeded planner is deterministic, T_1, T_2, ...
//! are the successive states of one execution (the harness verifies that each run's history is
//! a prefix of the longest run's). Consecutive pairs feed the per-transition oracles.

use crate::gen::{self, GenOpts};
use crate::oracle::{fmt_state, viol, Eval, Violation};
use crate::prng::{mix, Xo};
use crate::runner::{Check, Report, Tier};
use crate::sim::{run, Ev, Outcome, Res, RunOpts, Snap};
use crate::spaces::{bits_eq, bound_parts, geo_for, layout, BoundPart, Comp, Geo};
use crate::spec::*;
use std::f64::consts::PI;

pub struct TreeProp {
    pub id: &'static str,
}

pub struct Prefix {
    pub snaps: Vec<Snap>,
    pub last: Outcome,
    /// event index ranges [lo,hi) in `last.log` of iteration k (k = 1.. → index k-1)
    pub iters: Vec<(usize, usize)>,
    pub setup_ev: usize,
    pub solve_ci: usize,
    pub deterministic: bool,
    pub runs: Vec<Outcome>,
    /// per transition: the call that performed it returned a path
    pub ok_at: Vec<bool>,
    /// per transition: the user's checker unwound inside the call that performed it
    pub unwound: Vec<bool>,
}

fn set_budget(scn: &mut Scenario, ci: usize, n: u64) {
    if let CallSpec::Solve { timeout_ns, stalls } = &mut scn.calls[ci] {
        *timeout_ns = 1_000_000_000_000;
        *stalls = vec![Stall { at: Phase::Sample, nth: n, ns: STALL_NS }];
    }
}

fn seam_events(o: &Outcome, lo: usize, hi: usize) -> Vec<&Ev> {
    o.log[lo..hi].iter().filter(|e| e.phase().is_some()).collect()
}

pub fn prefix_replay(scn: &Scenario, n: u64) -> Option<Prefix> {
    let solve_ci = scn.calls.iter().position(|c| matches!(c, CallSpec::Solve { .. }))?;
    let setup_ci = scn.calls.iter().position(|c| matches!(c, CallSpec::Setup { .. }))?;
    let mut snaps = vec![];
    let mut runs: Vec<Outcome> = vec![];
    for i in 1..=n {
        let mut s = scn.clone();
        set_budget(&mut s, solve_ci, i);
        let out = run(&s, &RunOpts::default());
        if out.calls.len() <= solve_ci {
            return None;
        }
        if i == 1 {
            snaps.push(out.calls[setup_ci].snap.clone()?);
        }
        let Some(snap) = out.calls[solve_ci].snap.clone() else {
            runs.push(out);
            break;
        };
        snaps.push(snap);
        let done = !matches!(out.calls[solve_ci].res, Res::Err(crate::sim::ErrKind::Timeout));
        runs.push(out);
        if done {
            break;
        }
    }
    let last = runs.last()?.clone();
    let c = &last.calls[solve_ci];
    let samples: Vec<usize> = (c.ev_lo..c.ev_hi).filter(|i| last.log[*i].phase() == Some(Phase::Sample)).collect();
    let mut iters = vec![];
    for (k, lo) in samples.iter().enumerate() {
        let hi = samples.get(k + 1).copied().unwrap_or(c.ev_hi);
        iters.push((*lo, hi));
    }
    // each run's seam history must be a prefix of the longest run's
    let full = seam_events(&last, c.ev_lo, c.ev_hi);
    let mut deterministic = true;
    for r in &runs[..runs.len() - 1] {
        let rc = &r.calls[solve_ci];
        let part = seam_events(r, rc.ev_lo, rc.ev_hi);
        if part.len() > full.len() || !part.iter().zip(&full).all(|(a, b)| crate::checks::ev_bits_eq(a, b)) {
            deterministic = false;
        }
    }
    let setup_ev = last.calls[setup_ci].ev_lo;
    let mut ok_at = vec![false; snaps.len().saturating_sub(1)];
    if matches!(last.calls[solve_ci].res, Res::Path(_)) {
        if let Some(x) = ok_at.last_mut() {
            *x = true;
        }
    }
    let unwound = vec![false; ok_at.len()];
    Some(Prefix { snaps, last, iters, setup_ev, solve_ci, deterministic, runs, ok_at, unwound })
}

/// *Stepwise* driver: one planner instance, `solve` called n times, each call given exactly one
/// iteration by the virtual clock — the "interrupted and resumed" history. Linear cost, so it
/// reaches deeper trees than prefix replay; the per-transition oracles hold for any history, so
/// they do not depend on the generator surviving between calls (C07 decides that separately).
pub fn stepwise(scn: &Scenario, n: u64) -> Option<Prefix> {
    let setup_ci = scn.calls.iter().position(|c| matches!(c, CallSpec::Setup { .. }))?;
    let mut s = scn.clone();
    // keep everything up to the first solve (setup, parameter assignments), then step
    let first_solve = scn.calls.iter().position(|c| matches!(c, CallSpec::Solve { .. })).unwrap_or(setup_ci + 1);
    s.calls.truncate(first_solve.max(setup_ci + 1));
    for _ in 0..n {
        s.calls.push(CallSpec::Solve { timeout_ns: 1_000_000_000_000, stalls: vec![Stall { at: Phase::Sample, nth: 1, ns: STALL_NS }] });
    }
    let out = run(&s, &RunOpts::default());
    let mut snaps = vec![out.calls.get(setup_ci)?.snap.clone()?];
    let mut iters = vec![];
    let mut ok_at = vec![];
    let mut unwound = vec![];
    let mut last_ci = setup_ci;
    for ci in setup_ci + 1..out.calls.len() {
        if !matches!(s.calls[ci], CallSpec::Solve { .. }) {
            continue;
        }
        let c = &out.calls[ci];
        let Some(snap) = c.snap.clone() else { break };
        let Some(lo) = (c.ev_lo..c.ev_hi).find(|i| out.log[*i].phase() == Some(Phase::Sample)) else { break };
        // exactly one sampling event per call, or the budget was not honoured
        if (c.ev_lo..c.ev_hi).filter(|i| out.log[*i].phase() == Some(Phase::Sample)).count() != 1 {
            break;
        }
        snaps.push(snap);
        iters.push((lo, c.ev_hi));
        last_ci = ci;
        ok_at.push(matches!(c.res, Res::Path(_)));
        unwound.push(matches!(c.res, Res::UserPanic));
        // a returned path does not end the history: the caller solves again on the kept tree;
        // nor does an injected unwinding of the user's checker (the caller caught it)
        if !matches!(c.res, Res::Err(crate::sim::ErrKind::Timeout) | Res::Path(_) | Res::UserPanic) {
            break;
        }
    }
    let setup_ev = out.calls[setup_ci].ev_lo;
    Some(Prefix { snaps, last: out.clone(), iters, setup_ev, solve_ci: last_ci, deterministic: true, runs: vec![out], ok_at, unwound })
}

// ------------------------------------------------------------------------------------------
// state alphabets

fn special_component(rng: &mut Xo, c: &Comp, base: &[f64]) -> Vec<f64> {
    match c {
        Comp::RV(_) => base.to_vec(),
        Comp::SO2 => {
            let below_pi = f64::from_bits(PI.to_bits() - 1);
            vec![*rng.pick(&[0.0, PI / 2.0, -PI / 2.0, below_pi, -PI, PI, -below_pi, 3.0, -3.0])]
        }
        Comp::SO3 => {
            // q, -q, and quaternions whose dot product with the base is 0, ±(0.9995±eps), 1-1e-12
            let b = [base[0], base[1], base[2], base[3]];
            // an axis orthogonal to b
            let mut o = [-b[1], b[0], -b[3], b[2]];
            let n = (o.iter().map(|x| x * x).sum::<f64>()).sqrt();
            for x in &mut o {
                *x /= n;
            }
            let mk = |c: f64| -> Vec<f64> {
                let s = (1.0 - c * c).max(0.0).sqrt();
                (0..4).map(|i| c * b[i] + s * o[i]).collect()
            };
            match rng.below(11) {
                // canonical half turns and the identity written with literal zeros: the dot
                // product with an identity centre (and with each other) is EXACTLY 0 or ±1
                8..=10 => rng.pick(&[[1.0, 0.0, 0.0, 0.0], [0.0, 1.0, 0.0, 0.0], [0.0, 0.0, 1.0, 0.0], [-1.0, 0.0, 0.0, 0.0], [0.0, 0.0, 0.0, 1.0], [0.0, 0.0, 0.0, -1.0]]).to_vec(),
                0 => b.iter().map(|x| -x).collect(),
                1 => mk(0.0),
                2 => mk(0.9995 + 1e-7),
                3 => mk(0.9995 - 1e-7),
                4 => mk(-0.9995 - 1e-7),
                5 => mk(1.0 - 1e-12),
                6 => mk(-(0.9995 - 1e-7)),
                _ => b.to_vec(),
            }
        }
    }
}

/// Alphabet of awkward states for this space: anchors (start, goal), random states, and
/// variants with one component replaced by a special value.
pub fn alphabet(geo: &dyn Geo, rng: &mut Xo, anchors: &[St], size: usize) -> Vec<St> {
    let lay = layout(geo.spec());
    let mut a: Vec<St> = anchors.to_vec();
    while a.len() < size {
        let base = if rng.chance(0.5) { geo.sample(rng).unwrap_or_else(|| anchors[0].clone()) } else { rng.pick(&a).clone() };
        let mut s = base.clone();
        if rng.chance(0.6) {
            let ci = rng.below(lay.len() as u64) as usize;
            let off: usize = lay[..ci].iter().map(|c| c.width()).sum();
            let w = lay[ci].width();
            let sp = special_component(rng, &lay[ci], &base[off..off + w]);
            s[off..off + w].copy_from_slice(&sp);
        }
        a.push(s);
    }
    a
}

/// Are the bounds of this space such that interpolation between in-bounds states stays in
/// bounds (so a rejected motion must have been rejected by the validity checker)?
pub fn bounds_convex(spec: &SpaceSpec) -> bool {
    bound_parts(spec).iter().all(|p| match p {
        BoundPart::Box(_) => true,
        BoundPart::Arc(lo, hi) => *lo <= -PI && *hi >= PI,
        BoundPart::Cone(_, a) => *a >= PI,
    })
}

// ------------------------------------------------------------------------------------------

pub fn seq_total(a: u64, d: u32) -> u64 {
    (1..=d).map(|l| a.pow(l)).sum()
}

/// n-th sequence (shortest first) over an alphabet of `a` symbols
pub fn nth_sequence(a: u64, mut n: u64) -> Vec<usize> {
    let mut len = 1;
    loop {
        let c = a.pow(len);
        if n < c {
            break;
        }
        n -= c;
        len += 1;
    }
    let mut v = vec![];
    for _ in 0..len {
        v.push((n % a) as usize);
        n /= a;
    }
    v
}

pub const FIXTURE_SPACES: [&str; 6] = ["RV", "SO2", "SO3", "SE2", "Compound", "SE3"];

/// A fixed world + alphabet for exhaustive sample-sequence enumeration: everything but the
/// sequence is a function of (seed, property, fixture number).
pub fn fixture(prop: &'static str, seed: u64, f: u64, kind: PlannerKind, alpha_size: usize) -> (Scenario, Vec<St>) {
    let mut rng = Xo::new(mix(seed, &format!("{prop}-fixture"), f));
    let o = GenOpts {
        planner: Some(kind),
        families: vec!["open"],
        space_kinds: vec![FIXTURE_SPACES[(f % 6) as usize]],
        max_iters: 8,
        min_frac: 0.05,
        goal_sampler: Some(GoalSampler::Fixed),
        ..Default::default()
    };
    let mut scn = gen::base(&mut rng, prop, seed, 0, &o);
    let ext = scn.param("ext").unwrap_or(1.0);
    scn.planner.max_distance = ext * rng.range(0.15, 0.45);
    scn.planner.search_radius = scn.planner.max_distance * rng.range(1.0, 3.0);
    scn.planner.connection_radius = ext * rng.range(0.3, 0.8);
    scn.planner.goal_bias = 0.0;
    // a quarter of the fixtures use an UNSEEDED planner (`seed: None`, generator from OS entropy):
    // with scripted samples, goal bias 0 and a fixed goal sample the generator decides nothing,
    // so the run is still exactly repeatable while the unseeded code paths execute
    if f % 4 == 3 {
        scn.planner.seed = None;
    }
    scn.clock = ClockSpec { tick_ns: 1000, cost_valid: vec![], cost_sample: vec![], cost_goal: vec![] };
    let obstructed = (f / 6) % 2 == 0;
    // The obstructed R^n fixture is DYADIC: every coordinate is a multiple of 1/16 in [-8, 8]^2
    // and the step is longer than the box, so nothing is ever steered and every tree node is an
    // alphabet state; `from + (to - from) * 1.0` is then exact, the state a motion check looks at
    // last is bit-identical to the state that gets stored, and the invalid alphabet state can be
    // a POINT obstacle (no padding ball): a motion check that stops one ulp short of its end
    // point is visible here and nowhere else (8.3).
    let dyadic = obstructed && FIXTURE_SPACES[(f % 6) as usize] == "RV";
    if dyadic {
        scn.space = SpaceSpec::RV { dim: 2, bounds: Some(vec![(-8.0, 8.0), (-8.0, 8.0)]), frac: 0.05 };
        let snap = |rng: &mut Xo| -> St { (0..2).map(|_| (rng.below(257) as f64 - 128.0) / 16.0).collect() };
        scn.problems[0].starts[0] = snap(&mut rng);
        scn.problems[0].goal.target = snap(&mut rng);
        scn.problems[0].space = None;
        scn.worlds[0].obstacles.clear();
        scn.planner.max_distance = 64.0;
        scn.planner.search_radius = 64.0;
        scn.params.insert("ext".into(), 22.7);
        scn.params.insert("dyadic".into(), 1.0);
    }
    let mut geo = geo_for(&scn.space).unwrap();
    let anchors = vec![scn.problems[0].starts[0].clone(), scn.problems[0].goal.target.clone()];
    let mut alpha = alphabet(&*geo, &mut rng, &anchors, alpha_size);
    if dyadic {
        for a in alpha.iter_mut().skip(2) {
            for x in a.iter_mut() {
                *x = ((*x * 16.0).round() / 16.0).clamp(-8.0, 8.0);
            }
        }
    }
    if obstructed && dyadic {
        scn.worlds[0].obstacles.push(Obstacle::Ball { c: alpha[alpha.len() - 1].clone(), r: 1e-300 });
        geo.set_worlds(&scn.worlds);
        if !geo.valid(0, &anchors[0]) || !geo.valid(0, &anchors[1]) {
            scn.worlds[0].obstacles.clear();
        }
    } else if obstructed {
        // an alphabet world: the last alphabet state is invalid, padded with a small ball, plus
        // one ordinary obstacle
        scn.worlds[0].obstacles.push(Obstacle::Ball { c: alpha[alpha.len() - 1].clone(), r: 1e-3 * ext });
        if let Some(c) = geo.sample(&mut rng) {
            scn.worlds[0].obstacles.push(Obstacle::Ball { c, r: 0.15 * ext });
        }
        geo.set_worlds(&scn.worlds);
        if !geo.valid(0, &anchors[0]) || !geo.valid(0, &anchors[1]) {
            scn.worlds[0].obstacles.clear();
        }
    }
    // a quarter of the fixtures assign the public parameter fields after setup (the constructor
    // got another step, a goal bias of 0.5 and other radii)
    if f % 4 == 1 {
        let mut ctor = scn.planner.clone();
        ctor.max_distance *= 0.37;
        ctor.goal_bias = 0.5;
        ctor.search_radius *= 2.1;
        ctor.connection_radius *= 0.41;
        scn.reconfigure_after_setup(ctor);
    }
    scn.params.insert("obstacle_free".into(), if scn.worlds[0].obstacles.is_empty() { 1.0 } else { 0.0 });
    scn.family = format!("enumerated/{}", if scn.worlds[0].obstacles.is_empty() { "free" } else { "alphabet_world" });
    (scn, alpha)
}

impl TreeProp {
    fn kinds(&self) -> Vec<PlannerKind> {
        match self.id {
            "C17" => vec![PlannerKind::RRTStar],
            _ => vec![PlannerKind::RRT, PlannerKind::RRTConnect, PlannerKind::RRTStar],
        }
    }
    /// (number of fixtures, sequences per fixture, alphabet size, depth)
    fn enum_layout(&self, tier: Tier) -> (u64, u64, u64, u32) {
        let (a, d) = if tier == Tier::Thorough { (5u64, 6u32) } else { (4u64, 5u32) };
        (12 * self.kinds().len() as u64, seq_total(a, d), a, d)
    }
    /// EVERY sample sequence up to the bounded depth over the fixture's alphabet
    fn enumerated(&self, seed: u64, index: u64, tier: Tier) -> Scenario {
        let (_, per, a, _) = self.enum_layout(tier);
        let f = index / per;
        let kinds = self.kinds();
        let kind = kinds[((f / 12) as usize) % kinds.len()];
        let (mut scn, alpha) = fixture(self.id, seed, f % 12 + 12 * (f / 12), kind, a as usize);
        scn.index = index;
        let seq = nth_sequence(a, index % per);
        scn.sampling.script = seq.iter().map(|i| alpha[*i].clone()).collect();
        let solve_ci = scn.calls.iter().position(|c| matches!(c, CallSpec::Solve { .. })).unwrap();
        set_budget(&mut scn, solve_ci, seq.len() as u64);
        scn.params.insert("depth".into(), seq.len() as f64);
        scn.params.insert("enumerated".into(), 1.0);
        scn
    }

    fn depth(&self, tier: Tier) -> u64 {
        match tier {
            Tier::Quick => 24,
            Tier::Thorough => 48,
        }
    }
}

fn tree_of(s: &Snap, which: usize) -> Vec<(St, Option<usize>, f64)> {
    match s {
        Snap::Tree(t) => t.iter().map(|(s, p)| (s.clone(), *p, 0.0)).collect(),
        Snap::Star(t) => t.clone(),
        Snap::Connect(a, b) => (if which == 0 { a } else { b }).iter().map(|(s, p)| (s.clone(), *p, 0.0)).collect(),
        Snap::Prm(_) => vec![],
    }
}

struct Ctx<'a> {
    ev: &'a Eval<'a>,
    scn: &'a Scenario,
    pk: &'static str,
    w: usize,
    /// planner parameters in force during the solve calls (constructor's, or assigned later)
    pl: PlannerSpec,
}

impl Ctx<'_> {
    fn tol(&self, x: f64) -> f64 {
        let (er, ea) = self.ev.geo.eps();
        x.abs() * er + ea
    }

    /// nearest + one bounded step: is `s` the steer result from some nearest node of `tree`
    /// toward `q`?  Returns the reference node index on success.
    fn steer_ok(&self, tree: &[(St, Option<usize>, f64)], q: &[f64], s: &[f64], must_be: Option<usize>) -> Result<usize, String> {
        let g = &self.ev.geo;
        let ds: Vec<f64> = tree.iter().map(|n| g.d(&n.0, q)).collect();
        let dmin = ds.iter().cloned().fold(f64::INFINITY, f64::min);
        let md = self.pl.max_distance;
        let mut why = String::new();
        for (j, dj) in ds.iter().enumerate() {
            if *dj > dmin {
                continue;
            }
            if let Some(p) = must_be {
                if p != j {
                    continue;
                }
            }
            let r = &tree[j].0;
            if dmin <= md {
                if bits_eq(s, q) {
                    return Ok(j);
                }
                why = format!("the sample is within the maximum step ({dmin} <= {md}) but the new state {} is not the sample {}", fmt_state(s), fmt_state(q));
            } else {
                let drs = g.d(r, s);
                let on = g.on_segment(r, q, s, dmin).is_some();
                if on && (drs - md).abs() <= self.tol(md) {
                    return Ok(j);
                }
                why = format!(
                    "new state {} is not the point at exactly the maximum step on the segment from the nearest node toward the sample: d(near,new)={drs}, max step {md}, on-segment={on} (d(new,sample)={}, d(near,sample)={dmin}, near={:?}, sample={:?}, new={:?})",
                    fmt_state(s),
                    g.d(s, q),
                    r,
                    q,
                    s
                );
            }
        }
        if why.is_empty() {
            let p = must_be.unwrap_or(usize::MAX);
            why = format!(
                "the new node's parent #{p} is at distance {} from the sample but the nearest tree node is at {dmin}",
                ds.get(p).copied().unwrap_or(f64::NAN)
            );
            return Err(format!("not_nearest::{why}"));
        }
        Err(format!("bad_step::{why}"))
    }
}

impl Check for TreeProp {
    fn id(&self) -> &'static str {
        self.id
    }
    fn rule(&self) -> String {
        let own = match self.id {
            "C15" => "every snapshot T_i (after success and after timeout) is checked: root, parent links in range and acyclic, every new node valid, every new or re-parented edge covered by accepted validity queries at the space's resolution and no longer than the extension bound; non-trivial = at least 3 snapshots with at least one added node",
            "C16" => "every transition T_i -> T_i+1 is checked against the iteration's recorded sample and validity answers: at most one node per tree, nearest node, one bounded step toward the sample, rejected motions add nothing, RRT-Connect tree balancing and connect step; goal-bias counts over long runs for bias 0, p, 1; non-trivial = at least 3 transitions of which one added a node",
            _ => "every RRT* transition is checked with costs: cost = parent cost + edge, parent among nearest/neighbours and no dearer than via the nearest node (exactly cheapest in obstacle-free worlds), rewiring only to the new node, strictly cheaper, within the radius, validated, all other nodes untouched (and complete in obstacle-free worlds), recorded cost >= true branch length; RRT vs RRT* twin on the same seed; non-trivial = at least 3 transitions of which one added a node",
        };
        format!("indices below fixtures x sequences: EVERY sample sequence up to depth 5 (quick) / 6 (thorough) over a 4- (5-) state alphabet, for 12 fixtures (6 space kinds x {{alphabet world with a padded invalid alphabet state, obstacle-free}}) per planner kind; remaining indices: scenario i = space, world (incl. alphabet worlds that pad invalid alphabet states with a small ball), planner and seed, sampling either passthrough (the planner's seeded generator) or a script over a state alphabet (duplicates, seam and antipodal states, q/-q, near-parallel quaternions); prefix replay gives the tree after every iteration (depth 24 quick / 48 thorough); stepwise histories go on after a returned path; a fifteenth of the scenarios are SO(2) / SE(2) lattice worlds (exact half turns), the obstructed R^n fixture is dyadic with a point obstacle, an eighth assign the public parameter fields after setup, a quarter of the prefix-replay scenarios draw goal samples from the planner's generator with goal bias up to exactly 1; {own}; distinct = distinct scenario hash; distinct_tree_shapes counts parent-array shapes reached")
    }
    fn default_runs(&self, tier: Tier) -> u64 {
        let (fx, per, _, _) = self.enum_layout(tier);
        fx * per
            + match (tier, self.id) {
                (Tier::Quick, "C17") => 80_000,
                (Tier::Quick, _) => 36_000,
                (Tier::Thorough, "C17") => 800_000,
                (Tier::Thorough, _) => 400_000,
            }
    }
    fn assumptions(&self) -> Vec<String> {
        vec![
            "prefix replay equals stepping one execution because a fresh seeded planner's first solve is deterministic (verified per scenario; non-deterministic prefixes are skipped and counted)".into(),
            "bounded depth and seeded alphabets, not exhaustive enumeration".into(),
        ]
    }
    fn required_probes(&self) -> Vec<&'static str> {
        match self.id {
            "C15" => vec!["node_added", "scripted", "zero_length_edge", "ended_in_timeout", "ended_in_success", "stepwise_history", "history", "enumerated_sequence"],
            "C16" => vec!["node_added", "motion_rejected", "scripted", "connect_both_grew", "goal_bias_0", "goal_bias_1", "goal_bias_p", "stepwise_history", "enumerated_sequence"],
            _ => vec!["node_added", "rewired", "parent_not_nearest", "equal_cost_tie", "rrt_twin", "stepwise_history", "enumerated_sequence", "blocked_candidate"],
        }
    }

    fn generate(&self, seed: u64, index: u64, tier: Tier) -> Scenario {
        let (fixtures, per, _, _) = self.enum_layout(tier);
        if index < fixtures * per {
            return self.enumerated(seed, index, tier);
        }
        if index % 15 == 11 {
            // lattice angles (see checks::so2_lattice): exact half turns between tree nodes
            let kinds: &[PlannerKind] = if self.id == "C17" { &[PlannerKind::RRTStar] } else { &[PlannerKind::RRTStar, PlannerKind::RRTStar, PlannerKind::RRTStar, PlannerKind::RRTConnect, PlannerKind::RRT] };
            let mut scn = if (index / 15) % 3 == 0 { crate::checks::so2_lattice(self.id, seed, index, kinds) } else { crate::checks::se2_lattice(self.id, seed, index, kinds) };
            let n = scn.sampling.script.len() as f64;
            scn.params.insert("depth".into(), n);
            scn.params.insert("obstacle_free".into(), 0.0);
            return scn;
        }
        if index % 10 == 6 {
            // stepwise history in which the user's checker unwinds out of one iteration (see
            // checks::panic_resume and unwound_step); the iterations after it are judged by the
            // ordinary step rules
            let o2 = GenOpts { families: vec!["balls", "balls", "thin_wall", "slivers", "open", "shell_door"], min_frac: 0.01, ..Default::default() };
            let mut scn = crate::checks::panic_resume(self.id, seed, index, o2);
            if self.id == "C17" {
                scn.planner.kind = PlannerKind::RRTStar;
            }
            let n: u64 = scn.calls.iter().map(|c| if let CallSpec::Solve { stalls, .. } = c { stalls.first().map(|s| s.nth).unwrap_or(0) } else { 0 }).sum();
            scn.params.insert("stepwise".into(), 1.0);
            scn.params.insert("depth".into(), n.max(3) as f64);
            scn.params.insert("obstacle_free".into(), if scn.worlds[0].obstacles.is_empty() { 1.0 } else { 0.0 });
            return scn;
        }
        if self.id == "C15" && index % 10 == 8 {
            // the user's checker unwinds inside a solve, the caller goes on (see
            // checks::panic_resume): the complete trees after every call, the interrupted one
            // included, must be well-formed
            let o2 = GenOpts { families: vec!["balls", "balls", "thin_wall", "slivers", "open", "shell_door"], min_frac: 0.01, ..Default::default() };
            let mut scn = crate::checks::panic_resume(self.id, seed, index, o2);
            scn.params.insert("history".into(), 1.0);
            return scn;
        }
        if self.id == "C16" && index % 2003 == 19 {
            let mut scn = crate::checks::micro_fine(self.id, seed, index);
            scn.params.insert("depth".into(), 3.0);
            scn.params.insert("obstacle_free".into(), 1.0);
            return scn;
        }
        if self.id == "C15" && index % 4001 == 17 {
            let mut scn = crate::checks::ultra_fine(self.id, seed, index);
            scn.params.insert("depth".into(), 2.0);
            scn.params.insert("obstacle_free".into(), 1.0);
            return scn;
        }
        let mut rng = Xo::new(mix(seed, self.id, index));
        let kinds: Vec<PlannerKind> = match self.id {
            "C17" => vec![PlannerKind::RRTStar],
            "C16" => vec![PlannerKind::RRT, PlannerKind::RRTConnect, PlannerKind::RRTStar],
            _ => vec![PlannerKind::RRT, PlannerKind::RRTConnect, PlannerKind::RRTStar, PlannerKind::RRTStar],
        };
        let kind = *rng.pick(&kinds);
        let obstacle_free = self.id == "C17" && rng.chance(0.35);
        // half of the seeded scenarios are deep stepwise histories in cluttered worlds
        let deep = rng.chance(0.5);
        let o = GenOpts {
            planner: Some(kind),
            families: if obstacle_free { vec!["open"] } else if deep { vec!["slivers", "slivers", "slivers", "balls", "thin_wall", "zero_weight"] } else { vec!["open", "balls", "balls", "shell_door", "thin_wall", "zero_weight"] },
            max_iters: if deep { self.depth(tier) * 6 } else { self.depth(tier) },
            min_frac: 0.01,
            goal_sampler: Some(GoalSampler::Fixed),
            ..Default::default()
        };
        let mut scn = gen::base(&mut rng, self.id, seed, index, &o);
        let ext = scn.param("ext").unwrap_or(1.0);
        // steps comparable to the spread of the alphabet so that trees branch
        if rng.chance(0.7) {
            scn.planner.max_distance = ext * rng.range(0.05, 0.5);
        }
        scn.planner.search_radius = match rng.below(4) {
            0 => scn.planner.max_distance * rng.range(0.3, 1.0),
            1 => ext * rng.range(0.5, 2.0),
            _ => scn.planner.max_distance * rng.range(1.0, 4.0),
        };
        scn.planner.goal_bias = *rng.pick(&[0.0, 0.0, 0.05, 0.3]);
        // goal-bias statistics scenario (C16 only): a start sealed in so the tree stays small
        if self.id == "C16" && index % 25 == 7 {
            let bias = [0.0, 1.0, 0.05, 0.3, 0.5, 0.9][(index / 25 % 6) as usize];
            let o2 = GenOpts { planner: Some(*rng.pick(&[PlannerKind::RRT, PlannerKind::RRTStar, PlannerKind::RRTConnect])), families: vec!["sealed_start"], space_kinds: vec!["RV", "SE2", "SO2"], max_iters: 1, min_frac: 0.05, goal_sampler: Some(GoalSampler::Fixed), ..Default::default() };
            let mut s = gen::base(&mut rng, self.id, seed, index, &o2);
            if s.family == "sealed_start" {
                // steps that land in the wall: r_in < step < r_out
                if let Some(Obstacle::Shell { r_in, r_out, .. }) = s.worlds[0].obstacles.first() {
                    s.planner.max_distance = 0.5 * (r_in + r_out);
                    s.planner.search_radius = s.planner.max_distance;
                }
                s.planner.goal_bias = bias;
                let n = if bias > 0.0 && bias < 1.0 { if s.planner.kind == PlannerKind::RRTStar { 6_000 } else { 20_000 } } else { 2_000 };
                s.calls = vec![CallSpec::Setup { problem: 0 }, crate::checks::solve_budget(n)];
                s.params.insert("bias_stats".into(), n as f64);
                s.family = "goal_bias_stats".into();
                // every other one: the bias is assigned after setup, the constructor got another
                if (index / 25) % 2 == 1 {
                    let mut ctor = s.planner.clone();
                    ctor.goal_bias = if bias == 0.5 { 0.0 } else { 0.5 };
                    s.reconfigure_after_setup(ctor);
                    // half of those: a first solve runs with the constructor's bias BEFORE the
                    // field is assigned (setup, solve, assign, solve): nothing the first solve
                    // derived from the old value may survive into the second
                    if (index / 25) % 4 == 3 {
                        let k = s.calls.iter().position(|c| matches!(c, CallSpec::SetParams { .. })).unwrap();
                        s.calls.insert(k, crate::checks::solve_budget(40 + rng.below(60)));
                    }
                }
                return s;
            }
        }
        if self.id == "C15" && index % 10 == 3 {
            // API history: solve, solve again, re-setup with another problem, solve — the final
            // trees are checked in full
            let own_space = if rng.chance(0.4) { Some(gen::variant_space(&mut rng, &scn.space, None, 0.01)) } else { None };
            let mut geo = geo_for(own_space.as_ref().unwrap_or(&scn.space)).unwrap();
            let fam = *rng.pick(&["goal_overlap", "goal_overlap", "balls", "goal_invalid", "zero_weight", "thin_wall", "slivers"]);
            let mut wb = gen::build_world(&mut geo, &mut rng, ext, fam);
            wb.world.harness_metric = scn.worlds[0].harness_metric;
            scn.worlds.push(wb.world);
            scn.problems.push(ProblemSpec {
                starts: vec![wb.start],
                goal: GoalSpec { target: wb.target, radius: wb.goal_radius * rng.range(1.0, 2.5), sampler: GoalSampler::Harness, sampler_seed: rng.u64() % 1_000_000, comp: wb.goal_comp, harness_metric: scn.problems[0].goal.harness_metric, cycle: vec![] },
                world: 1,
                space: own_space,
            });
            scn.problems[0].goal.sampler = GoalSampler::Harness;
            scn.problems[0].goal.radius *= rng.range(1.0, 2.5);
            let b = |rng: &mut Xo| crate::checks::solve_budget(1 + rng.below(20));
            scn.calls = match rng.below(3) {
                0 => vec![CallSpec::Setup { problem: 0 }, b(&mut rng), b(&mut rng), b(&mut rng)],
                1 => vec![CallSpec::Setup { problem: 0 }, b(&mut rng), CallSpec::Setup { problem: 1 }, b(&mut rng), b(&mut rng)],
                _ => vec![CallSpec::Setup { problem: 1 }, b(&mut rng), CallSpec::Setup { problem: 0 }, b(&mut rng), CallSpec::Setup { problem: 1 }, b(&mut rng)],
            };
            scn.planner.goal_bias = *rng.pick(&[0.05, 0.3]);
            scn.params.insert("history".into(), 1.0);
            scn.family = format!("history/{}", scn.family);
            // RRT-Connect draws its goal root inside setup: a third of its histories let the goal
            // sampler fail on exactly the draw made by one of the setup calls (found with a dry
            // run, see eval_history). Whatever setup does about it (today it panics, which is
            // C08's subject), no later tree may be rooted at anything but a goal sample.
            // a fifth of the histories: the goal sampler fails at some draw INSIDE a solve. Today
            // the planner panics there (C08's known finding; the history ends); a planner that
            // returns an error instead must leave well-formed trees behind for the next call.
            if rng.chance(0.2) {
                scn.faults.push(crate::spec::FaultSpec::GoalSamplerErr { at_call: 2 + rng.below(12) });
            } else if kind == PlannerKind::RRTConnect && rng.chance(0.33) {
                let setups = scn.calls.iter().filter(|c| matches!(c, CallSpec::Setup { .. })).count() as u64;
                scn.params.insert("goal_sampler_fails_in_setup".into(), rng.below(setups) as f64);
            }
            return scn;
        }
        // a share of the prefix-replay scenarios (a fresh seeded planner per run) draw their goal
        // samples from the planner's own generator, with goal biases up to exactly 1: which
        // words of the seeded stream are consumed, and when, then decides what is sampled
        if !deep && rng.chance(0.25) {
            scn.problems[0].goal.sampler = GoalSampler::Planner;
            scn.planner.goal_bias = *rng.pick(&[1.0, 1.0, 0.5, 0.9, 0.05]);
            scn.problems[0].goal.radius *= rng.range(1.0, 3.0);
            scn.family = format!("{}+planner_goal_rng", scn.family);
        }
        let n = if deep { self.depth(tier) * 6 } else { self.depth(tier) };
        let n = match &scn.calls[1] {
            // keep the affordable budget the base generator chose
            CallSpec::Solve { stalls, .. } => stalls.iter().filter(|s| s.at == Phase::Sample).map(|s| s.nth).max().unwrap_or(n).min(n).max(3),
            _ => 3 + rng.below(n - 2),
        };
        let mut n = n;
        if deep {
            scn.params.insert("stepwise".into(), 1.0);
            if kind == PlannerKind::RRTStar {
                scn.planner.max_distance = ext * rng.range(0.05, 0.2);
                scn.planner.search_radius = scn.planner.max_distance * rng.range(1.5, 4.0);
                scn.planner.goal_bias = 0.0;
                // a tenth of them very deep: large trees in clutter, where a new node has many
                // candidates of very different cost, some of them blocked
                if rng.chance(if self.id == "C16" { 0.03 } else { 0.1 }) {
                    let l = geo_for(&scn.space).unwrap().lvs();
                    n = gen::affordable_iters_b(&scn.planner, l, ext, self.depth(tier) * 20, 6e6).max(n);
                    scn.family = format!("very_deep/{}", scn.family);
                }
            }
        }
        let solve_ci = scn.calls.iter().position(|c| matches!(c, CallSpec::Solve { .. })).unwrap();
        set_budget(&mut scn, solve_ci, n);
        scn.params.insert("depth".into(), n as f64);
        scn.params.insert("obstacle_free".into(), if scn.worlds[0].obstacles.is_empty() { 1.0 } else { 0.0 });
        // scripted alphabet sampling for about half of the scenarios
        if rng.chance(0.55) {
            let mut geo = geo_for(&scn.space).unwrap();
            let anchors = vec![scn.problems[0].starts[0].clone(), scn.problems[0].goal.target.clone()];
            let asz = rng.usize_in(4, 9);
            let alpha = alphabet(&*geo, &mut rng, &anchors, asz);
            // alphabet world: some alphabet states invalid, padded with a small ball
            if !obstacle_free && rng.chance(0.5) {
                for a in alpha.iter().skip(2) {
                    if rng.chance(0.25) {
                        scn.worlds[0].obstacles.push(Obstacle::Ball { c: a.clone(), r: 1e-3 * ext });
                    }
                }
                geo.set_worlds(&scn.worlds);
                if !geo.valid(0, &anchors[0]) || !geo.valid(0, &anchors[1]) {
                    scn.worlds[0].obstacles.retain(|o| !matches!(o, Obstacle::Ball { r, .. } if *r == 1e-3 * ext));
                }
            }
            let mut script = vec![];
            for _ in 0..n {
                if rng.chance(0.8) {
                    script.push(rng.pick(&alpha).clone());
                } else if let Some(s) = geo.sample(&mut rng) {
                    script.push(s);
                }
            }
            scn.sampling.script = script;
            scn.family = format!("{}+alphabet", scn.family);
        }
        // an eighth of the scenarios assign the public parameter fields after setup (the
        // constructor got other values: another step, goal bias, radius)
        if rng.chance(0.125) {
            let ctor = gen::gen_planner(&mut rng, kind, ext);
            scn.reconfigure_after_setup(ctor);
        }
        scn
    }

    fn evaluate(&self, scn: &Scenario) -> Report {
        let mut rep = Report::default();
        if let Some(n) = scn.param("bias_stats") {
            return self.eval_bias(scn, n as u64, rep);
        }
        if scn.param("history").is_some() {
            return self.eval_history(scn, rep);
        }
        let depth = scn.param("depth").unwrap_or(8.0) as u64;
        let is_stepwise = scn.param("stepwise").is_some();
        if is_stepwise {
            rep.probe("stepwise_history");
        }
        let Some(px) = (if is_stepwise { stepwise(scn, depth) } else { prefix_replay(scn, depth) }) else {
            rep.probe("prefix_failed");
            return rep;
        };
        for r in &px.runs {
            rep.absorb(r);
        }
        if !scn.sampling.script.is_empty() {
            rep.probe("scripted");
        }
        if scn.param("enumerated").is_some() {
            rep.probe("enumerated_sequence");
        }
        if px.ok_at.iter().rev().skip(1).any(|x| *x) {
            rep.probe("stepped_on_after_success");
        }
        if !px.deterministic {
            rep.probe("prefix_nondeterministic");
            return rep;
        }
        match &px.last.calls[px.solve_ci].res {
            Res::Path(_) => rep.probe("ended_in_success"),
            Res::Err(_) => rep.probe("ended_in_timeout"),
            Res::Panic(_) | Res::Abort(_) => {
                rep.probe("planner_panic_noted");
                return rep;
            }
            _ => {}
        }
        let ev = Eval::new(scn, &px.last);
        let cx = Ctx { ev: &ev, scn, pk: scn.planner.kind.name(), w: scn.problems[0].world, pl: scn.planner_at(scn.calls.len()) };
        let mut v: Vec<Violation> = vec![];
        let transitions = px.snaps.len().saturating_sub(1);
        rep.transitions = transitions as u64;
        let mut added_any = false;
        for i in 0..transitions {
            if px.iters.len() <= i {
                break;
            }
            let (lo, hi) = px.iters[i];
            let added = px.snaps[i + 1].node_count() > px.snaps[i].node_count();
            added_any |= added;
            if added {
                rep.probe("node_added");
            }
            if px.unwound.get(i) == Some(&true) {
                rep.probe("unwound_iteration");
                if let Err(x) = self.unwound_step(&cx, &px, i, lo, hi) {
                    v.push(x);
                    break;
                }
                continue;
            }
            let r = match self.id {
                "C15" => self.c15_step(&cx, &px, i, lo, hi, &mut rep),
                "C16" => self.c16_step(&cx, &px, i, lo, hi, &mut rep),
                _ => self.c17_step(&cx, &px, i, lo, hi, &mut rep),
            };
            if let Err(x) = r {
                v.push(x);
                break;
            }
        }
        if self.id == "C15" && v.is_empty() {
            if let Err(x) = self.c15_roots(&cx, &px) {
                v.push(x);
            }
        }
        if self.id == "C17" && v.is_empty() && scn.param("obstacle_free").is_some() && !is_stepwise {
            if let Err(x) = self.c17_twin(&cx, scn, &px, &mut rep) {
                v.push(x);
            }
        }
        rep.nontrivial = transitions >= 3 && added_any;
        rep.violations = v;
        rep
    }
}

impl TreeProp {
    // --------------------------------------------------------------------------------------
    // An iteration the user's checker unwound out of (the caller caught it and goes on): the
    // step rules of the property do not describe a half-done iteration, but what it leaves in the
    // trees must be something a completed validation put there — every node that is new has a
    // parent that was there, is valid, and its edge is covered by validity queries accepted
    // during this very iteration; nothing that was there is lost; there is still one root.

    fn unwound_step(&self, cx: &Ctx, px: &Prefix, i: usize, lo: usize, hi: usize) -> Result<(), Violation> {
        let g = &cx.ev.geo;
        let id = self.id;
        let it = i + 1;
        let acc: Vec<&St> = px.last.log[lo..hi].iter().filter_map(|e| if let Ev::Valid(s, true) = e { Some(s) } else { None }).collect();
        let n_trees = if matches!(px.snaps[i], Snap::Connect(..)) { 2 } else { 1 };
        for ti in 0..n_trees {
            let (t0, t1) = (tree_of(&px.snaps[i], ti), tree_of(&px.snaps[i + 1], ti));
            if t1.len() < t0.len() {
                return Err(viol(id, format!("{id}/unwound_iteration/nodes_lost"), format!("iteration {it} (checker unwound): tree {ti} shrank from {} to {} nodes", t0.len(), t1.len())));
            }
            for (j, node) in t1.iter().enumerate() {
                let Some(p) = node.1 else {
                    if j != 0 {
                        return Err(viol(id, format!("{id}/unwound_iteration/second_root"), format!("iteration {it} (checker unwound): node {j} of tree {ti} {} was left without a parent", fmt_state(&node.0))));
                    }
                    continue;
                };
                if j < t0.len() && t0[j].1 == Some(p) {
                    continue;
                }
                // a new node, or an old one with a new parent (RRT* rewiring before the unwinding)
                if p >= t1.len() || p == j {
                    return Err(viol(id, format!("{id}/unwound_iteration/parent_out_of_range"), format!("iteration {it} (checker unwound): node {j} has parent {p}")));
                }
                if !g.valid(cx.w, &node.0) {
                    return Err(viol(id, format!("{id}/unwound_iteration/invalid_node"), format!("iteration {it} (checker unwound): node {j} {} is rejected by the checker", fmt_state(&node.0))));
                }
                if let Some((gap, _)) = cx.ev.coverage_gap(&acc, &t1[p].0, &node.0) {
                    return Err(viol(
                        id,
                        format!("{id}/unwound_iteration/unvalidated_edge"),
                        format!("iteration {it} (checker unwound): edge {p}->{j} of tree {ti} was left in the tree with a stretch of {gap} that no accepted validity query of the iteration covers"),
                    ));
                }
            }
        }
        Ok(())
    }

    // --------------------------------------------------------------------------------------
    // C15 on API histories: the complete trees after every solve call

    fn eval_history(&self, scn: &Scenario, mut rep: Report) -> Report {
        let mut derived;
        let mut scn = scn;
        if let Some(which) = scn.param("goal_sampler_fails_in_setup") {
            // dry run: the ordinal (over the scenario) of the sample_goal call that the chosen
            // setup makes
            let dry = run(scn, &RunOpts { snapshots: false, ..Default::default() });
            let setups: Vec<usize> = scn.calls.iter().enumerate().filter(|(_, c)| matches!(c, CallSpec::Setup { .. })).map(|(i, _)| i).collect();
            if let Some(call) = setups.get(which as usize).and_then(|ci| dry.calls.get(*ci)) {
                let before = dry.log[..call.ev_lo].iter().filter(|e| matches!(e, Ev::SG(_))).count() as u64;
                let inside = dry.log[call.ev_lo..call.ev_hi].iter().filter(|e| matches!(e, Ev::SG(_))).count();
                if inside > 0 {
                    derived = scn.clone();
                    derived.faults.push(crate::spec::FaultSpec::GoalSamplerErr { at_call: before + 1 });
                    scn = &derived;
                    rep.probe("goal_sampler_fault_in_setup");
                }
            }
        }
        let out = run(scn, &RunOpts::default());
        rep.absorb(&out);
        rep.probe("history");
        let ev = Eval::new(scn, &out);
        let pk = scn.planner.kind.name();
        let g0 = &ev.geo;
        let mut v = vec![];
        'calls: for ci in ev.solve_calls() {
            let call = &out.calls[ci];
            let Some(snap) = &call.snap else { continue };
            let Some((prob, setup_ev)) = ev.problem_at(ci) else { continue };
            let Some(w) = ev.checker_at(ci) else { continue };
            if matches!(call.res, Res::Err(crate::sim::ErrKind::InvalidStartState)) {
                continue;
            }
            let g = ev.g_at(ci);
            let acc = ev.accepted(setup_ev, call.ev_hi);
            let b = ev.step_bound();
            let (er, ea) = g.eps();
            let trees: Vec<Vec<(St, Option<usize>, f64)>> = match snap {
                Snap::Connect(..) => vec![tree_of(snap, 0), tree_of(snap, 1)],
                _ => vec![tree_of(snap, 0)],
            };
            let grown = trees.iter().any(|t| t.len() > 1);
            rep.transitions += trees.iter().map(|t| t.len() as u64).sum::<u64>();
            if grown {
                rep.nontrivial = true;
            }
            for (ti, t) in trees.iter().enumerate() {
                if t.is_empty() || t[0].1.is_some() {
                    v.push(viol("C15", format!("C15/bad_root/{pk}"), format!("call #{ci}: tree {ti} is empty or its node 0 has a parent")));
                    break 'calls;
                }
                if ti == 0 && !bits_eq(&t[0].0, &prob.starts[0]) {
                    v.push(viol("C15", format!("C15/root_not_start/{pk}"), format!("call #{ci}: the start tree's root is not the installed start state")));
                    break 'calls;
                }
                if ti == 1 && !out.log[setup_ev..call.ev_hi].iter().any(|e| matches!(e, Ev::SG(Some(s)) if bits_eq(s, &t[0].0))) {
                    v.push(viol("C15", format!("C15/root_not_goal_sample/{pk}"), format!("call #{ci}: the goal tree's root {} was never returned by sample_goal since the setup in force", fmt_state(&t[0].0))));
                    break 'calls;
                }
                for (j, node) in t.iter().enumerate() {
                    // the goal tree's root is validated by the first iteration that runs
                    let pending_root = ti == 1 && j == 0 && !grown;
                    if !pending_root && !g.valid(w, &node.0) {
                        v.push(viol(
                            "C15",
                            format!("C15/invalid_node/{pk}/{}", if j == 0 { "root" } else { "node" }),
                            format!("call #{ci}: node {j} of tree {ti} {} is rejected by the checker in force", fmt_state(&node.0)),
                        ));
                        break 'calls;
                    }
                    let Some(p) = node.1 else {
                        if j != 0 {
                            v.push(viol("C15", format!("C15/second_root/{pk}"), format!("call #{ci}: node {j} has no parent")));
                            break 'calls;
                        }
                        continue;
                    };
                    if p >= t.len() || p == j {
                        v.push(viol("C15", format!("C15/parent_out_of_range/{pk}"), format!("call #{ci}: node {j} has parent {p}")));
                        break 'calls;
                    }
                    let d = g.d(&t[p].0, &node.0);
                    if !(d <= b * (1.0 + er) + ea) {
                        v.push(viol("C15", format!("C15/edge_too_long/{pk}"), format!("call #{ci}: edge {p}->{j} has length {d} > extension bound {b}")));
                        break 'calls;
                    }
                    if let Some((gap, at)) = ev.coverage_gap_g(g, &acc, &t[p].0, &node.0) {
                        v.push(viol(
                            "C15",
                            format!("C15/edge_not_validated/{pk}/history"),
                            format!("call #{ci}: edge {p}->{j} of tree {ti} (length {d}) has an unvalidated stretch of {gap} at {at} (queries accepted since the last setup)"),
                        ));
                        break 'calls;
                    }
                    // acyclic
                    let mut cur = j;
                    let mut steps = 0;
                    while let Some(q) = t[cur].1 {
                        cur = q;
                        steps += 1;
                        if q >= t.len() || steps > t.len() {
                            v.push(viol("C15", format!("C15/cycle/{pk}"), format!("call #{ci}: parent links from node {j} do not reach the root")));
                            break 'calls;
                        }
                    }
                }
            }
        }
        rep.violations = v;
        rep
    }

    // --------------------------------------------------------------------------------------
    // C15

    fn c15_roots(&self, cx: &Ctx, px: &Prefix) -> Result<(), Violation> {
        let start = &cx.scn.problems[0].starts[0];
        for (i, s) in px.snaps.iter().enumerate() {
            let trees: Vec<Vec<(St, Option<usize>, f64)>> = match s {
                Snap::Connect(..) => vec![tree_of(s, 0), tree_of(s, 1)],
                _ => vec![tree_of(s, 0)],
            };
            for (ti, t) in trees.iter().enumerate() {
                if t.is_empty() || t[0].1.is_some() {
                    return Err(viol("C15", format!("C15/bad_root/{}", cx.pk), format!("snapshot {i}: tree {ti} is empty or its node 0 has a parent")));
                }
                if ti == 0 && !bits_eq(&t[0].0, start) {
                    return Err(viol("C15", format!("C15/root_not_start/{}", cx.pk), format!("snapshot {i}: the start tree's root {} is not the start state", fmt_state(&t[0].0))));
                }
                if ti == 1 {
                    let is_goal_sample = px.last.log.iter().any(|e| matches!(e, Ev::SG(Some(g)) if bits_eq(g, &t[0].0)));
                    if !is_goal_sample {
                        return Err(viol("C15", format!("C15/root_not_goal_sample/{}", cx.pk), format!("snapshot {i}: the goal tree's root {} was never returned by sample_goal", fmt_state(&t[0].0))));
                    }
                }
                // parent links in range and acyclic: every node reaches the root
                for j in 0..t.len() {
                    let mut cur = j;
                    let mut steps = 0;
                    while let Some(p) = t[cur].1 {
                        if p >= t.len() {
                            return Err(viol("C15", format!("C15/parent_out_of_range/{}", cx.pk), format!("snapshot {i}: node {cur} has parent {p} but the tree has {} nodes", t.len())));
                        }
                        cur = p;
                        steps += 1;
                        if steps > t.len() {
                            return Err(viol("C15", format!("C15/cycle/{}", cx.pk), format!("snapshot {i}: following parent links from node {j} never reaches the root")));
                        }
                    }
                    if cur != 0 {
                        return Err(viol("C15", format!("C15/second_root/{}", cx.pk), format!("snapshot {i}: node {j} leads to parentless node {cur}, not to the root")));
                    }
                }
            }
        }
        Ok(())
    }

    fn c15_step(&self, cx: &Ctx, px: &Prefix, i: usize, lo: usize, hi: usize, rep: &mut Report) -> Result<(), Violation> {
        let g = &cx.ev.geo;
        // the queries of this iteration normally suffice; only when they leave a gap are all
        // queries accepted since the last setup consulted (any of them counts as validation)
        let acc_iter = cx.ev.accepted(lo, hi);
        let b = cx.ev.step_bound();
        let n_trees = if matches!(px.snaps[i], Snap::Connect(..)) { 2 } else { 1 };
        for ti in 0..n_trees {
            let old = tree_of(&px.snaps[i], ti);
            let new = tree_of(&px.snaps[i + 1], ti);
            for (j, node) in new.iter().enumerate() {
                let is_new = j >= old.len();
                let reparented = !is_new && old[j].1 != node.1;
                if !is_new && !bits_eq(&old[j].0, &node.0) && !(ti == 1 && j == 0) {
                    return Err(viol("C15", format!("C15/node_state_changed/{}", cx.pk), format!("iteration {}: the state of existing node {j} changed", i + 1)));
                }
                if !(is_new || reparented) {
                    continue;
                }
                if is_new && !g.valid(cx.w, &node.0) {
                    return Err(viol("C15", format!("C15/invalid_node/{}", cx.pk), format!("iteration {}: new node {j} {} is rejected by the checker", i + 1, fmt_state(&node.0))));
                }
                let Some(p) = node.1 else {
                    return Err(viol("C15", format!("C15/bad_root/{}", cx.pk), format!("iteration {}: new node {j} has no parent", i + 1)));
                };
                if p >= new.len() || p == j {
                    return Err(viol("C15", format!("C15/parent_out_of_range/{}", cx.pk), format!("iteration {}: node {j} has parent {p} (tree size {})", i + 1, new.len())));
                }
                let ps = &new[p].0;
                let d = g.d(ps, &node.0);
                if d == 0.0 {
                    rep.probe("zero_length_edge");
                }
                if !(d <= b + cx.tol(b)) {
                    return Err(viol("C15", format!("C15/edge_too_long/{}", cx.pk), format!("iteration {}: edge {p}->{j} has length {d} > extension bound {b}", i + 1)));
                }
                let gap = cx.ev.coverage_gap(&acc_iter, ps, &node.0).and_then(|_| cx.ev.coverage_gap(&cx.ev.accepted(px.setup_ev, hi), ps, &node.0));
                if let Some((gap, at)) = gap {
                    return Err(viol(
                        "C15",
                        format!("C15/edge_not_validated/{}/{}", cx.pk, if reparented { "rewired" } else { "new" }),
                        format!("iteration {}: edge {p}->{j} (length {d}) has an unvalidated stretch of {gap} at {at}; resolution {}", i + 1, g.lvs_ref()),
                    ));
                }
                // the consequence the validation stands for, looked at directly (along the
                // harness's own interpolation): no invalid stretch longer than the resolution
                if let Some(at) = cx.ev.invalid_stretch(&**g, cx.w, ps, &node.0) {
                    return Err(viol("C15", format!("C15/edge_crosses_invalid_stretch/{}", cx.pk), format!("iteration {}: edge {p}->{j} crosses an invalid stretch longer than 1.25 L near position {at}", i + 1)));
                }
            }
        }
        Ok(())
    }

    // --------------------------------------------------------------------------------------
    // C16

    fn c16_step(&self, cx: &Ctx, px: &Prefix, i: usize, lo: usize, hi: usize, rep: &mut Report) -> Result<(), Violation> {
        let g = &cx.ev.geo;
        let evs: Vec<&Ev> = px.last.log[lo..hi].iter().filter(|e| e.phase().is_some()).collect();
        let q = match evs.first() {
            Some(Ev::SU(Some(q))) | Some(Ev::SG(Some(q))) => q.clone(),
            _ => return Ok(()),
        };
        let it = i + 1;
        // a motion may also be rejected because an interpolated state leaves the bounds
        let convex = !px.last.log[lo..hi].iter().any(|e| matches!(e, Ev::OutOfBounds(_)));
        let last_valid = evs.iter().rev().find_map(|e| if let Ev::Valid(_, a) = e { Some(*a) } else { None });
        let acc_iter: Vec<&St> = evs.iter().filter_map(|e| if let Ev::Valid(s, true) = e { Some(s) } else { None }).collect();
        let sig = |what: &str| format!("C16/{what}/{}", cx.pk);
        match (&px.snaps[i], &px.snaps[i + 1]) {
            (Snap::Connect(..), Snap::Connect(..)) => {
                let (a0, b0) = (tree_of(&px.snaps[i], 0), tree_of(&px.snaps[i], 1));
                let (a1, b1) = (tree_of(&px.snaps[i + 1], 0), tree_of(&px.snaps[i + 1], 1));
                let (da, db) = (a1.len() as i64 - a0.len() as i64, b1.len() as i64 - b0.len() as i64);
                if !(0..=1).contains(&da) || !(0..=1).contains(&db) {
                    return Err(viol("C16", sig("more_than_one_node"), format!("iteration {it}: start tree grew by {da}, goal tree by {db}")));
                }
                // the goal-root redraw (the planner found its unvalidated goal root invalid and
                // drew another goal sample instead of planning): not an extension attempt
                let prev_seam = px.last.log[..lo].iter().rev().find(|e| e.phase().is_some());
                if let Some(Ev::Valid(s, false)) = prev_seam {
                    if b0.len() == 1 && bits_eq(s, &b0[0].0) && matches!(evs.first(), Some(Ev::SG(_))) {
                        rep.probe("goal_root_redrawn");
                        if da != 0 || db != 0 {
                            return Err(viol("C16", sig("grew_during_root_redraw"), format!("iteration {it}: a tree grew while the goal root was being redrawn")));
                        }
                        return Ok(());
                    }
                }
                let start_first = a0.len() <= b0.len();
                let (ta0, ta1, tb0, tb1, dga, dgb) = if start_first { (&a0, &a1, &b0, &b1, da, db) } else { (&b0, &b1, &a0, &a1, db, da) };
                if dga == 0 && dgb == 1 {
                    return Err(viol("C16", sig("wrong_tree_grown"), format!("iteration {it}: the larger tree was extended although the smaller tree ({} vs {} nodes, start first on ties) was not", ta0.len(), tb0.len())));
                }
                if dga == 0 {
                    rep.probe("motion_rejected");
                    if convex && last_valid != Some(false) {
                        return Err(viol("C16", sig("dropped_extension"), format!("iteration {it}: no node was added although no validity query of the attempt was rejected")));
                    }
                    return Ok(());
                }
                let na = ta1.last().unwrap();
                if let Err(e) = cx.steer_ok(ta0, &q, &na.0, na.1) {
                    let (k, why) = e.split_once("::").unwrap();
                    return Err(viol("C16", sig(k), format!("iteration {it} (tree grown first): {why}")));
                }
                if !g.valid(cx.w, &na.0) {
                    return Err(viol("C16", sig("added_although_endpoint_invalid"), format!("iteration {it}: node {} was added although the checker rejects it (the motion to it is invalid)", fmt_state(&na.0))));
                }
                if let Some((gap, _)) = cx.ev.coverage_gap(&acc_iter, &ta0[na.1.unwrap()].0, &na.0) {
                    return Err(viol("C16", sig("added_without_validation"), format!("iteration {it}: the new edge has an unvalidated stretch of {gap}")));
                }
                if dgb == 0 {
                    // "... and then tries to connect the other tree to the new node": an
                    // iteration that extended the first tree and then neither grew the other
                    // one nor had any state of a connect motion rejected (by the checker or by
                    // the bounds) never tried — unless the call ended right there because the
                    // start tree reached the goal by itself.
                    let ended_in_success = px.ok_at.get(i).copied().unwrap_or(false);
                    let rejected = !convex || evs.iter().any(|e| matches!(e, Ev::Valid(_, false)));
                    if !ended_in_success && !rejected {
                        return Err(viol("C16", sig("connect_not_attempted"), format!("iteration {it}: the first tree was extended but the other tree neither grew nor had a connect motion rejected (no connect attempt toward the new node)")));
                    }
                    rep.probe("connect_rejected");
                }
                if dgb == 1 {
                    rep.probe("connect_both_grew");
                    let nb = tb1.last().unwrap();
                    if let Err(e) = cx.steer_ok(tb0, &na.0, &nb.0, nb.1) {
                        let (k, why) = e.split_once("::").unwrap();
                        return Err(viol("C16", sig(&format!("connect_{k}")), format!("iteration {it} (connect step toward the new node): {why}")));
                    }
                    if !g.valid(cx.w, &nb.0) {
                        return Err(viol("C16", sig("added_although_endpoint_invalid"), format!("iteration {it}: connect node {} was added although the checker rejects it", fmt_state(&nb.0))));
                    }
                    if let Some((gap, _)) = cx.ev.coverage_gap(&acc_iter, &tb0[nb.1.unwrap()].0, &nb.0) {
                        return Err(viol("C16", sig("added_without_validation"), format!("iteration {it}: the connect edge has an unvalidated stretch of {gap}")));
                    }
                }
                Ok(())
            }
            _ => {
                let t0 = tree_of(&px.snaps[i], 0);
                let t1 = tree_of(&px.snaps[i + 1], 0);
                let dn = t1.len() as i64 - t0.len() as i64;
                if !(0..=1).contains(&dn) {
                    return Err(viol("C16", sig("more_than_one_node"), format!("iteration {it}: the tree grew by {dn} nodes")));
                }
                if dn == 0 {
                    rep.probe("motion_rejected");
                    if convex && last_valid != Some(false) {
                        return Err(viol("C16", sig("dropped_extension"), format!("iteration {it}: no node was added although no validity query of the attempt was rejected")));
                    }
                    return Ok(());
                }
                let nn = t1.last().unwrap();
                // RRT links to the nearest node; RRT* may choose another parent (C17) but the new
                // state is still the steer result from a nearest node
                let must = if matches!(px.snaps[i], Snap::Tree(_)) { nn.1 } else { None };
                let near = match cx.steer_ok(&t0, &q, &nn.0, must) {
                    Ok(j) => j,
                    Err(e) => {
                        let (k, why) = e.split_once("::").unwrap();
                        return Err(viol("C16", sig(k), format!("iteration {it}: {why}")));
                    }
                };
                if let Some((gap, _)) = cx.ev.coverage_gap(&acc_iter, &t0[near].0, &nn.0) {
                    return Err(viol("C16", sig("added_without_validation"), format!("iteration {it}: a node was added although the motion from the nearest node was not validated (unvalidated stretch {gap})")));
                }
                // a motion whose end point the checker rejects is an invalid motion
                if !g.valid(cx.w, &nn.0) {
                    return Err(viol("C16", sig("added_although_endpoint_invalid"), format!("iteration {it}: node {} was added although the checker rejects it (the motion to it is invalid)", fmt_state(&nn.0))));
                }
                if matches!(px.snaps[i], Snap::Tree(_)) && evs.iter().any(|e| matches!(e, Ev::Valid(_, false))) {
                    return Err(viol("C16", sig("added_despite_rejection"), format!("iteration {it}: a node was added although the checker rejected a state of the motion")));
                }
                Ok(())
            }
        }
    }

    fn eval_bias(&self, scn: &Scenario, n: u64, mut rep: Report) -> Report {
        let out = run(scn, &RunOpts { snapshots: false, ..Default::default() });
        rep.absorb(&out);
        let ci = out.calls.len() - 1;
        let c = &out.calls[ci];
        let evs = &out.log[c.ev_lo..c.ev_hi];
        let sg = evs.iter().filter(|e| matches!(e, Ev::SG(_))).count() as f64;
        let su = evs.iter().filter(|e| matches!(e, Ev::SU(_))).count() as f64;
        let tot = sg + su;
        let p = scn.planner_at(ci).goal_bias;
        let pk = scn.planner.kind.name();
        rep.nontrivial = tot >= (n as f64) * 0.9;
        rep.transitions = tot as u64;
        let mut v = vec![];
        if p == 0.0 {
            rep.probe("goal_bias_0");
            if sg > 0.0 {
                v.push(viol("C16", format!("C16/goal_bias/{pk}/zero"), format!("goal bias 0 but {sg} of {tot} samples came from the goal region")));
            }
        } else if p == 1.0 {
            rep.probe("goal_bias_1");
            if su > 0.0 {
                v.push(viol("C16", format!("C16/goal_bias/{pk}/one"), format!("goal bias 1 but {su} of {tot} samples were uniform")));
            }
        } else {
            rep.probe("goal_bias_p");
            let sd = (tot * p * (1.0 - p)).sqrt();
            if tot >= 1000.0 && (sg - tot * p).abs() > 7.0 * sd {
                v.push(viol("C16", format!("C16/goal_bias/{pk}/p"), format!("goal bias {p}: {sg} of {tot} samples came from the goal region, expected {} ± {}", tot * p, 7.0 * sd)));
            }
        }
        rep.violations = v;
        rep
    }

    // --------------------------------------------------------------------------------------
    // C17

    fn c17_step(&self, cx: &Ctx, px: &Prefix, i: usize, lo: usize, hi: usize, rep: &mut Report) -> Result<(), Violation> {
        let g = &cx.ev.geo;
        let (Snap::Star(t0), Snap::Star(t1)) = (&px.snaps[i], &px.snaps[i + 1]) else { return Ok(()) };
        let it = i + 1;
        let sig = |what: &str| format!("C17/{what}");
        let rel = |x: f64| x.abs() * 1e-9 + 1e-12;
        let evs: Vec<&Ev> = px.last.log[lo..hi].iter().filter(|e| e.phase().is_some()).collect();
        let acc_iter: Vec<&St> = evs.iter().filter_map(|e| if let Ev::Valid(s, true) = e { Some(s) } else { None }).collect();
        let free = cx.scn.worlds[cx.w].obstacles.is_empty() && bounds_convex(&cx.scn.space);
        let r = cx.pl.search_radius;
        if t1.len() == t0.len() {
            if t0 != t1 {
                return Err(viol("C17", sig("changed_without_new_node"), format!("iteration {it}: no node was added but the tree changed")));
            }
            return Ok(());
        }
        let n = t0.len();
        let (ns, np, nc) = (&t1[n].0, t1[n].1, t1[n].2);
        let Some(np) = np else { return Err(viol("C17", sig("no_parent"), format!("iteration {it}: new node without parent"))) };
        if np >= n {
            return Err(viol("C17", sig("no_parent"), format!("iteration {it}: new node's parent {np} out of range")));
        }
        let q = match evs.first() {
            Some(Ev::SU(Some(q))) | Some(Ev::SG(Some(q))) => q.clone(),
            _ => return Ok(()),
        };
        // nearest node(s) to the sample
        let dq: Vec<f64> = t0.iter().map(|x| g.d(&x.0, &q)).collect();
        let dmin = dq.iter().cloned().fold(f64::INFINITY, f64::min);
        let nearest: Vec<usize> = (0..n).filter(|j| dq[*j] <= dmin).collect();
        let dn: Vec<f64> = t0.iter().map(|x| g.d(&x.0, ns)).collect();
        // 1. bookkeeping: cost = parent's cost + edge
        let want = t0[np].2 + dn[np];
        if (nc - want).abs() > rel(want) {
            return Err(viol("C17", sig("cost_not_parent_plus_edge"), format!("iteration {it}: new node cost {nc} but parent cost {} + edge {} = {want}", t0[np].2, dn[np])));
        }
        // 2. parent among {nearest} ∪ neighbours
        if !nearest.contains(&np) {
            rep.probe("parent_not_nearest");
            if !(dn[np] < r) {
                return Err(viol("C17", sig("parent_outside_radius"), format!("iteration {it}: parent {np} is neither the nearest node nor within the search radius ({} >= {r})", dn[np])));
            }
            if let Some((gap, _)) = cx.ev.coverage_gap(&acc_iter, &t0[np].0, ns) {
                return Err(viol("C17", sig("parent_edge_not_validated"), format!("iteration {it}: the chosen parent's edge has an unvalidated stretch of {gap}")));
            }
        }
        // 3. no dearer than through the nearest node
        // (several nodes may be EXACTLY equally near the sample; the planner extends from one of
        // them and only that one's motion is known to be valid, so the bound that holds whatever
        // the tie-break is the dearest of them)
        let via_nearest = nearest.iter().map(|j| t0[*j].2 + dn[*j]).fold(f64::NEG_INFINITY, f64::max);
        if nc > via_nearest + rel(via_nearest) {
            return Err(viol("C17", sig("dearer_than_nearest"), format!("iteration {it}: new node cost {nc} exceeds the cost through the nearest node {via_nearest}")));
        }
        // 4. obstacle-free: the cheapest candidate
        if free {
            let mut best = via_nearest;
            for j in 0..n {
                if dn[j] < r * (1.0 - 1e-9) {
                    best = best.min(t0[j].2 + dn[j]);
                }
            }
            if nc > best + rel(best) {
                return Err(viol("C17", sig("not_cheapest_parent"), format!("iteration {it} (obstacle-free): new node cost {nc} but a neighbour offers {best}")));
            }
            let ties = (0..n).filter(|j| (dn[*j] < r || nearest.contains(j)) && ((t0[*j].2 + dn[*j]) - nc).abs() <= rel(nc)).count();
            if ties > 1 {
                rep.probe("equal_cost_tie");
            }
        }
        // 4b. obstructed worlds: a strictly cheaper candidate that was not chosen must have been
        // rejected — the history must show a rejected query (validity or bounds) on its segment
        let rejected: Vec<&St> = px.last.log[lo..hi]
            .iter()
            .filter_map(|e| match e {
                Ev::Valid(s, false) | Ev::OutOfBounds(s) => Some(s),
                _ => None,
            })
            .collect();
        if !free {
            for j in 0..n {
                if j == np || !(dn[j] < r * (1.0 - 1e-9)) {
                    continue;
                }
                let via = t0[j].2 + dn[j];
                if via < nc - rel(nc) * 10.0 - cx.tol(nc) {
                    rep.probe("blocked_candidate");
                    if !rejected.iter().any(|q| g.on_segment(&t0[j].0, ns, q, dn[j]).is_some()) {
                        return Err(viol(
                            "C17",
                            sig("cheaper_parent_ignored"),
                            format!("iteration {it}: neighbour {j} offers cost {via} < chosen {nc} and no query on its motion to the new node was rejected"),
                        ));
                    }
                }
            }
        }
        // 5. rewiring
        for j in 0..n {
            let (s0, p0, c0) = (&t0[j].0, t0[j].1, t0[j].2);
            let (s1, p1, c1) = (&t1[j].0, t1[j].1, t1[j].2);
            if !bits_eq(s0, s1) {
                return Err(viol("C17", sig("state_changed"), format!("iteration {it}: state of node {j} changed")));
            }
            if p0 == p1 {
                if c0.to_bits() != c1.to_bits() {
                    return Err(viol("C17", sig("cost_changed_without_rewire"), format!("iteration {it}: node {j} kept its parent but its cost changed {c0} -> {c1}")));
                }
                if j != np && dn[j] < r * (1.0 - 1e-9) {
                    let via = nc + dn[j];
                    if via < c0 - rel(c0) * 10.0 - cx.tol(c0) {
                        if free {
                            return Err(viol("C17", sig("missed_rewire"), format!("iteration {it} (obstacle-free): node {j} (cost {c0}) would cost {via} through the new node but was not re-parented")));
                        }
                        rep.probe("blocked_rewire");
                        if !rejected.iter().any(|q| g.on_segment(ns, s0, q, dn[j]).is_some()) {
                            return Err(viol(
                                "C17",
                                sig("missed_rewire"),
                                format!("iteration {it}: node {j} (cost {c0}) would cost {via} through the new node, was not re-parented, and no query on that motion was rejected"),
                            ));
                        }
                    }
                }
                continue;
            }
            rep.probe("rewired");
            if p1 != Some(n) {
                return Err(viol("C17", sig("rewired_to_other_node"), format!("iteration {it}: node {j} was re-parented to {p1:?}, not to the new node {n}")));
            }
            if !(dn[j] < r) {
                return Err(viol("C17", sig("rewired_outside_radius"), format!("iteration {it}: node {j} re-parented although it is {} >= search radius {r} from the new node", dn[j])));
            }
            if !(c1 < c0) {
                return Err(viol("C17", sig("rewire_not_cheaper"), format!("iteration {it}: node {j} re-parented but its cost went {c0} -> {c1}")));
            }
            let want = nc + dn[j];
            if (c1 - want).abs() > rel(want) {
                return Err(viol("C17", sig("rewire_cost_wrong"), format!("iteration {it}: node {j} re-parented with cost {c1}, expected new node cost {nc} + edge {} = {want}", dn[j])));
            }
            if let Some((gap, _)) = cx.ev.coverage_gap(&acc_iter, ns, s0) {
                return Err(viol("C17", sig("rewire_edge_not_validated"), format!("iteration {it}: rewired edge new->{j} has an unvalidated stretch of {gap}")));
            }
        }
        // 6. recorded cost bounds the true branch length; acyclic
        for j in 0..t1.len() {
            let mut cur = j;
            let mut len = 0.0;
            let mut steps = 0;
            while let Some(p) = t1[cur].1 {
                if p >= t1.len() || steps > t1.len() {
                    return Err(viol("C17", sig("cycle"), format!("iteration {it}: parent links from node {j} do not reach the root")));
                }
                len += g.d(&t1[p].0, &t1[cur].0);
                cur = p;
                steps += 1;
            }
            if cur != 0 {
                return Err(viol("C17", sig("branch_does_not_reach_start"), format!("iteration {it}: the branch of node {j} ends at parentless node {cur}, not at the root")));
            }
            if t1[j].2 < len - rel(len) * 1e3 - cx.tol(len) {
                return Err(viol("C17", sig("cost_below_branch_length"), format!("iteration {it}: node {j} records cost {} but its branch is {len} long", t1[j].2)));
            }
        }
        Ok(())
    }

    /// RRT and RRT* on the same seed, world and clock: same node states in the same order, same
    /// terminal state, RRT* path no longer.
    fn c17_twin(&self, cx: &Ctx, scn: &Scenario, px: &Prefix, rep: &mut Report) -> Result<(), Violation> {
        let g = &cx.ev.geo;
        let mut s2 = scn.clone();
        s2.planner.kind = PlannerKind::RRT;
        let n = px.snaps.len().saturating_sub(1).max(1) as u64;
        set_budget(&mut s2, px.solve_ci, n);
        let out = run(&s2, &RunOpts::default());
        rep.absorb(&out);
        rep.probe("rrt_twin");
        let Some(Snap::Tree(rt)) = &out.calls[px.solve_ci].snap else { return Ok(()) };
        let Some(Snap::Star(st)) = px.snaps.last() else { return Ok(()) };
        if rt.len() != st.len() || !rt.iter().zip(st).all(|(a, b)| bits_eq(&a.0, &b.0)) {
            return Err(viol("C17", "C17/twin_nodes_differ".into(), format!("RRT and RRT* with the same seed produced different node sequences ({} vs {} nodes)", rt.len(), st.len())));
        }
        let plen = |p: &Vec<St>| -> f64 { p.windows(2).map(|w| g.d(&w[0], &w[1])).sum() };
        match (&out.calls[px.solve_ci].res, &px.last.calls[px.solve_ci].res) {
            (Res::Path(a), Res::Path(b)) => {
                if !bits_eq(a.last().unwrap(), b.last().unwrap()) {
                    return Err(viol("C17", "C17/twin_end_state_differs".into(), "RRT and RRT* paths for the same seed end at different states".into()));
                }
                let (la, lb) = (plen(a), plen(b));
                if lb > la * (1.0 + 1e-9) + cx.tol(la) {
                    return Err(viol("C17", "C17/twin_longer".into(), format!("RRT* path length {lb} exceeds RRT's {la} for the same seed and problem")));
                }
                rep.probe("twin_both_solved");
            }
            (Res::Path(_), _) | (_, Res::Path(_)) => {
                return Err(viol("C17", "C17/twin_result_differs".into(), "exactly one of RRT / RRT* found a path with the same seed and budget".into()));
            }
            _ => {}
        }
        Ok(())
    }
}
