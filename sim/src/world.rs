//! Simulated user: the validity checker's world, as a pure function of the state.
//!
//! Obstacles are metric shapes defined with the space's own `distance`, so one generator serves
//! all six spaces; boxes and walls act on the leading real-vector coordinates.

use crate::spaces::{Comp, HMetric, Raw};
use crate::spec::{Obstacle, WorldSpec};

pub enum TObst<R: Raw> {
    Ball { c: R::StateType, cf: Vec<f64>, r: f64 },
    Shell { c: R::StateType, cf: Vec<f64>, r_in: f64, r_out: f64, door: Option<(R::StateType, Vec<f64>, f64)> },
    Box { lo: Vec<f64>, hi: Vec<f64> },
    Wall { axis: usize, lo: f64, hi: f64, gap: Option<(usize, f64, f64)> },
    CompBall { off: usize, kind: Comp, c: Vec<f64>, r: f64 },
    Outside { lo: Vec<f64>, hi: Vec<f64> },
}

pub struct TypedWorld<R: Raw> {
    pub obstacles: Vec<TObst<R>>,
    needs_coords: bool,
    /// Some: metric shapes are measured with the harness's own metric on flat states
    hm: Option<HMetric>,
}

impl<R: Raw> TypedWorld<R> {
    pub fn new(spec: &crate::spec::SpaceSpec, w: &WorldSpec) -> Self {
        let lay_v = crate::spaces::layout(spec);
        let lay: &[Comp] = &lay_v;
        let hm = if w.harness_metric { Some(HMetric::new(spec)) } else { None };
        let mut needs_coords = hm.is_some();
        let obstacles = w
            .obstacles
            .iter()
            .map(|o| match o {
                Obstacle::Ball { c, r } => TObst::Ball { c: R::dec(lay, c), cf: c.clone(), r: *r },
                Obstacle::Shell { c, r_in, r_out, door } => TObst::Shell {
                    c: R::dec(lay, c),
                    cf: c.clone(),
                    r_in: *r_in,
                    r_out: *r_out,
                    door: door.as_ref().map(|(dc, dr)| (R::dec(lay, dc), dc.clone(), *dr)),
                },
                Obstacle::Box { lo, hi } => {
                    needs_coords = true;
                    TObst::Box { lo: lo.clone(), hi: hi.clone() }
                }
                Obstacle::Wall { axis, lo, hi, gap } => {
                    needs_coords = true;
                    TObst::Wall { axis: *axis, lo: *lo, hi: *hi, gap: *gap }
                }
                Obstacle::Outside { lo, hi } => {
                    needs_coords = true;
                    TObst::Outside { lo: lo.clone(), hi: hi.clone() }
                }
                Obstacle::CompBall { comp, c, r } => {
                    needs_coords = true;
                    TObst::CompBall { off: crate::spaces::comp_offset(lay, *comp), kind: lay[*comp], c: c.clone(), r: *r }
                }
            })
            .collect();
        TypedWorld { obstacles, needs_coords, hm }
    }

    fn dist(&self, space: &R, c: &R::StateType, cf: &[f64], s: &R::StateType, coords: &[f64]) -> f64 {
        match &self.hm {
            Some(h) => h.d(cf, coords),
            None => space.distance(c, s),
        }
    }

    pub fn valid(&self, space: &R, s: &R::StateType) -> bool {
        let mut coords: Vec<f64> = Vec::new();
        if self.needs_coords {
            R::enc(s, &mut coords);
        }
        for o in &self.obstacles {
            let inside = match o {
                TObst::Ball { c, cf, r } => self.dist(space, c, cf, s, &coords) < *r,
                TObst::Shell { c, cf, r_in, r_out, door } => {
                    let d = self.dist(space, c, cf, s, &coords);
                    d > *r_in
                        && d < *r_out
                        && !door.as_ref().is_some_and(|(dc, dcf, dr)| self.dist(space, dc, dcf, s, &coords) < *dr)
                }
                TObst::Box { lo, hi } => {
                    lo.iter().zip(hi).enumerate().all(|(i, (l, h))| coords[i] > *l && coords[i] < *h)
                }
                TObst::Wall { axis, lo, hi, gap } => {
                    let x = coords[*axis];
                    x > *lo
                        && x < *hi
                        && !gap.is_some_and(|(ga, gl, gh)| coords[ga] > gl && coords[ga] < gh)
                }
                TObst::Outside { lo, hi } => lo.iter().zip(hi).enumerate().any(|(i, (l, h))| coords[i] < *l || coords[i] > *h),
                TObst::CompBall { off, kind, c, r } => crate::spaces::comp_dist(kind, &coords[*off..*off + kind.width()], c) < *r,
            };
            if inside {
                return false;
            }
        }
        true
    }
}
