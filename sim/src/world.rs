//! Simulated user: the validity checker's world, as a pure function of the state.
//!
//! Obstacles are metric shapes defined with the space's own `distance`, so one generator serves
//! all six spaces; boxes and walls act on the leading real-vector coordinates.

use crate::spaces::{Comp, Raw};
use crate::spec::{Obstacle, WorldSpec};

pub enum TObst<R: Raw> {
    Ball { c: R::StateType, r: f64 },
    Shell { c: R::StateType, r_in: f64, r_out: f64, door: Option<(R::StateType, f64)> },
    Box { lo: Vec<f64>, hi: Vec<f64> },
    Wall { axis: usize, lo: f64, hi: f64, gap: Option<(usize, f64, f64)> },
    CompBall { off: usize, kind: Comp, c: Vec<f64>, r: f64 },
    Outside { lo: Vec<f64>, hi: Vec<f64> },
}

pub struct TypedWorld<R: Raw> {
    pub obstacles: Vec<TObst<R>>,
    needs_coords: bool,
}

impl<R: Raw> TypedWorld<R> {
    pub fn new(lay: &[Comp], w: &WorldSpec) -> Self {
        let mut needs_coords = false;
        let obstacles = w
            .obstacles
            .iter()
            .map(|o| match o {
                Obstacle::Ball { c, r } => TObst::Ball { c: R::dec(lay, c), r: *r },
                Obstacle::Shell { c, r_in, r_out, door } => TObst::Shell {
                    c: R::dec(lay, c),
                    r_in: *r_in,
                    r_out: *r_out,
                    door: door.as_ref().map(|(dc, dr)| (R::dec(lay, dc), *dr)),
                },
                Obstacle::Box { lo, hi } => {
                    needs_coords = true;
                    TObst::Box { lo: lo.clone(), hi: hi.clone() }
                }
                Obstacle::Wall { axis, lo, hi, gap } => {
                    needs_coords = true;
                    TObst::Wall { axis: *axis, lo: *lo, hi: *hi, gap: *gap }
                }
                Obstacle::Outside { lo, hi } => {
                    needs_coords = true;
                    TObst::Outside { lo: lo.clone(), hi: hi.clone() }
                }
                Obstacle::CompBall { comp, c, r } => {
                    needs_coords = true;
                    TObst::CompBall { off: crate::spaces::comp_offset(lay, *comp), kind: lay[*comp], c: c.clone(), r: *r }
                }
            })
            .collect();
        TypedWorld { obstacles, needs_coords }
    }

    pub fn valid(&self, space: &R, s: &R::StateType) -> bool {
        let mut coords: Vec<f64> = Vec::new();
        if self.needs_coords {
            R::enc(s, &mut coords);
        }
        for o in &self.obstacles {
            let inside = match o {
                TObst::Ball { c, r } => space.distance(c, s) < *r,
                TObst::Shell { c, r_in, r_out, door } => {
                    let d = space.distance(c, s);
                    d > *r_in
                        && d < *r_out
                        && !door.as_ref().is_some_and(|(dc, dr)| space.distance(dc, s) < *dr)
                }
                TObst::Box { lo, hi } => {
                    lo.iter().zip(hi).enumerate().all(|(i, (l, h))| coords[i] > *l && coords[i] < *h)
                }
                TObst::Wall { axis, lo, hi, gap } => {
                    let x = coords[*axis];
                    x > *lo
                        && x < *hi
                        && !gap.is_some_and(|(ga, gl, gh)| coords[ga] > gl && coords[ga] < gh)
                }
                TObst::Outside { lo, hi } => lo.iter().zip(hi).enumerate().any(|(i, (l, h))| coords[i] < *l || coords[i] > *h),
                TObst::CompBall { off, kind, c, r } => crate::spaces::comp_dist(kind, &coords[*off..*off + kind.width()], c) < *r,
            };
            if inside {
                return false;
            }
        }
        true
    }
}
