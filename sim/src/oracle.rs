//! Oracles over a run's results and recorded history.

use crate::sim::{installed_problem, Ev, Outcome, Res};
use crate::spaces::{bits_eq, bounds_excess, geo_for, Geo};
use crate::spec::*;

#[derive(Clone, Debug)]
pub struct Violation {
    pub property: &'static str,
    /// stable identifier of the failing clause + circumstances (used for known findings)
    pub sig: String,
    pub detail: String,
}

pub fn viol(property: &'static str, sig: String, detail: String) -> Violation {
    Violation { property, sig, detail }
}

/// The scenario's goal predicate, evaluated by the harness (metric ball and, if present, the
/// component condition).
pub fn goal_sat(geo: &dyn Geo, g: &GoalSpec, s: &[f64]) -> bool {
    let d = if g.harness_metric { crate::spaces::HMetric::new(geo.spec()).d(&g.target, s) } else { geo.d(&g.target, s) };
    if !(d <= g.radius) {
        return false;
    }
    match &g.comp {
        None => true,
        Some(cc) => {
            let lay = crate::spaces::layout(geo.spec());
            let off = crate::spaces::comp_offset(&lay, cc.comp);
            crate::spaces::comp_dist(&lay[cc.comp], &s[off..off + lay[cc.comp].width()], &cc.c) <= cc.r
        }
    }
}

pub struct Eval<'a> {
    pub scn: &'a Scenario,
    pub out: &'a Outcome,
    pub geo: Box<dyn Geo>,
    /// per problem: the geometry of its own space when it has one
    pub pgeo: Vec<Option<Box<dyn Geo>>>,
}

pub fn fmt_state(s: &[f64]) -> String {
    let v: Vec<String> = s.iter().map(|x| format!("{x:.6}")).collect();
    format!("[{}]", v.join(","))
}

impl<'a> Eval<'a> {
    pub fn new(scn: &'a Scenario, out: &'a Outcome) -> Self {
        let mut geo = geo_for(&scn.space).expect("space builds");
        geo.set_worlds(&scn.worlds);
        let pgeo = scn
            .problems
            .iter()
            .map(|p| {
                p.space.as_ref().and_then(|sp| geo_for(sp).ok()).map(|mut g| {
                    g.set_worlds(&scn.worlds);
                    g
                })
            })
            .collect();
        Eval { scn, out, geo, pgeo }
    }
    /// Geometry of the space installed when call `ci` runs (the most recent problem's own space,
    /// else the scenario's).
    pub fn g_at(&self, ci: usize) -> &dyn Geo {
        match installed_problem(self.scn, self.out, ci) {
            Some((pi, _)) => self.pgeo.get(pi).and_then(|g| g.as_deref()).unwrap_or(&*self.geo),
            None => &*self.geo,
        }
    }
    pub fn space_at(&self, ci: usize) -> &SpaceSpec {
        match installed_problem(self.scn, self.out, ci) {
            Some((pi, _)) => self.scn.problems[pi].space.as_ref().unwrap_or(&self.scn.space),
            None => &self.scn.space,
        }
    }
    pub fn pk(&self) -> &'static str {
        self.scn.planner.kind.name()
    }
    pub fn solve_calls(&self) -> Vec<usize> {
        (0..self.out.calls.len()).filter(|i| matches!(self.scn.calls[*i], CallSpec::Solve { .. })).collect()
    }
    pub fn problem_at(&self, ci: usize) -> Option<(&'a ProblemSpec, usize)> {
        installed_problem(self.scn, self.out, ci).map(|(p, ev)| (&self.scn.problems[p], ev))
    }
    /// Has a setup (which installs a checker) happened before call `ci` since the last `New`?
    pub fn checker_at(&self, ci: usize) -> Option<usize> {
        let mut w = None;
        for j in 0..ci {
            match &self.scn.calls[j] {
                CallSpec::New => w = None,
                CallSpec::Setup { problem } => w = Some(self.scn.problems[*problem].world),
                _ => {}
            }
        }
        w
    }
    /// States the checker accepted between event indices [lo, hi)
    pub fn accepted(&self, lo: usize, hi: usize) -> Vec<&'a St> {
        self.out.log[lo..hi]
            .iter()
            .filter_map(|e| match e {
                Ev::Valid(s, true) => Some(s),
                _ => None,
            })
            .collect()
    }

    // ----------------------------------------------------------------------------------
    // C01

    pub fn c01(&self, ci: usize, v: &mut Vec<Violation>) -> bool {
        let Some((prob, _)) = self.problem_at(ci) else { return false };
        let Some(w) = self.checker_at(ci) else { return false };
        let start = &prob.starts[0];
        let start_ok = self.geo.valid(w, start);
        let mut nontrivial = false;
        match &self.out.calls[ci].res {
            Res::Path(p) => {
                nontrivial = true;
                for (i, s) in p.iter().enumerate() {
                    if !self.geo.valid(w, s) {
                        let pos = if i == 0 {
                            "first"
                        } else if i + 1 == p.len() {
                            "last"
                        } else {
                            "interior"
                        };
                        v.push(viol(
                            "C01",
                            format!("C01/invalid_{pos}/{}", self.pk()),
                            format!(
                                "{} returned Ok(path[{}]) whose state #{i} {} the checker rejects",
                                self.pk(),
                                p.len(),
                                fmt_state(s)
                            ),
                        ));
                        break;
                    }
                }
            }
            Res::Err(e) if !start_ok => {
                nontrivial = true;
                // PlannerUninitialised / UnsampledStateSpace legitimately take precedence
                // (C08); anything else must be the invalid-start report.
                use crate::sim::ErrKind::*;
                if !matches!(e, InvalidStartState | PlannerUninitialised | UnsampledStateSpace) {
                    v.push(viol(
                        "C01",
                        format!("C01/start_not_reported/{}", self.pk()),
                        format!(
                            "{}: the checker rejects the start {} but solve returned Err({}) instead of InvalidStartState",
                            self.pk(),
                            fmt_state(start),
                            e.name()
                        ),
                    ));
                }
            }
            _ => {}
        }
        nontrivial
    }

    // ----------------------------------------------------------------------------------
    // C02

    pub fn c02(&self, ci: usize, v: &mut Vec<Violation>) -> bool {
        let Res::Path(p) = &self.out.calls[ci].res else { return false };
        let Some((prob, _)) = self.problem_at(ci) else {
            v.push(viol("C02", format!("C02/path_without_problem/{}", self.pk()), "a path was returned although no problem is installed".into()));
            return true;
        };
        if p.is_empty() {
            v.push(viol("C02", format!("C02/empty_path/{}", self.pk()), "Ok(path) is empty".into()));
            return true;
        }
        if !bits_eq(&p[0], &prob.starts[0]) {
            v.push(viol(
                "C02",
                format!("C02/first_not_start/{}", self.pk()),
                format!("path[0]={} is not the installed start {}", fmt_state(&p[0]), fmt_state(&prob.starts[0])),
            ));
        }
        let last = p.last().unwrap();
        let dg = self.geo.d(&prob.goal.target, last);
        if !goal_sat(&*self.geo, &prob.goal, last) {
            v.push(viol(
                "C02",
                format!("C02/last_not_goal/{}", self.pk()),
                format!("path.last()={} does not satisfy the goal: distance {dg} from the target (radius {}), component condition {:?}", fmt_state(last), prob.goal.radius, prob.goal.comp),
            ));
        }
        true
    }

    // ----------------------------------------------------------------------------------
    // C03

    /// Largest gap between accepted queries along segment a→b (ends included). Returns
    /// Some((gap, position)) when a gap exceeds the resolution.
    pub fn coverage_gap(&self, acc: &[&St], a: &[f64], b: &[f64]) -> Option<(f64, f64)> {
        self.coverage_gap_g(&*self.geo, acc, a, b)
    }
    pub fn coverage_gap_g(&self, geo: &dyn Geo, acc: &[&St], a: &[f64], b: &[f64]) -> Option<(f64, f64)> {
        let l = geo.lvs_ref();
        if !(l > 0.0) || !l.is_finite() {
            return None;
        }
        let dab = geo.d(a, b);
        let (er, ea) = geo.eps();
        let lim = l * (1.0 + 1e-6 + er) + ea;
        if !(dab > lim) {
            return None;
        }
        // End points half a turn apart (SO(2)) or 180 degrees apart (SO(3)): the metric cannot
        // tell the two ways round apart, so "on the segment" is then decided by the traversal
        // the space's own interpolation defines from a to b (the property's words). A library
        // whose a→b and b→a interpolations run along opposite half circles has its motion
        // check look at one and the returned path run along the other.
        let ambiguous = crate::spaces::harness_interp(geo.spec(), a, b, 0.5).is_none();
        let mut pos: Vec<f64> = Vec::new();
        for q in acc {
            if let Some(p) = geo.on_segment(a, b, q, dab) {
                if ambiguous && dab > 0.0 {
                    let m = geo.interp(a, b, (p / dab).clamp(0.0, 1.0));
                    if !(geo.d(q, &m) <= 1e-6 * (1.0 + dab) * crate::spaces::so3_weight_scale(geo.spec())) {
                        continue;
                    }
                }
                pos.push(p);
            }
        }
        pos.sort_by(|x, y| x.partial_cmp(y).unwrap());
        let mut prev = 0.0;
        for p in pos {
            if p - prev > lim {
                return Some((p - prev, prev));
            }
            prev = prev.max(p);
        }
        if dab - prev > lim {
            return Some((dab - prev, prev));
        }
        None
    }

    /// Clause 2 of C03: an invalid stretch of true length >= 1.25 L on the segment.
    pub fn invalid_stretch(&self, geo: &dyn Geo, w: usize, a: &[f64], b: &[f64]) -> Option<f64> {
        let l = geo.lvs_ref();
        if !(l > 0.0) || !l.is_finite() {
            return None;
        }
        let dab = geo.d(a, b);
        let n = (dab / (0.25 * l)).ceil();
        if !(n >= 6.0) || n > 40_000.0 {
            return None;
        }
        let n = n as usize;
        let mut run = 0;
        // sampled along the harness's own interpolation (component by component whatever the
        // weights), not the library's: a library that interpolates wrongly must not be asked
        // where the segment runs
        if crate::spaces::harness_interp(geo.spec(), a, b, 0.5).is_none() {
            return None;
        }
        for i in 0..=n {
            let Some(q) = crate::spaces::harness_interp(geo.spec(), a, b, i as f64 / n as f64) else { return None };
            if geo.valid(w, &q) {
                run = 0;
            } else {
                run += 1;
                if run >= 6 {
                    return Some(dab * i as f64 / n as f64);
                }
            }
        }
        None
    }

    pub fn c03(&self, ci: usize, v: &mut Vec<Violation>) -> bool {
        self.c03_cached(ci, v, &mut None)
    }

    /// `seen`: segments (by bit pattern, with the setup they belong to) already judged in this
    /// scenario — long multi-solve histories return the same tree edges over and over.
    pub fn c03_cached(&self, ci: usize, v: &mut Vec<Violation>, seen: &mut Option<std::collections::HashSet<(usize, Vec<u64>, Vec<u64>)>>) -> bool {
        let Res::Path(p) = &self.out.calls[ci].res else { return false };
        let Some((_, setup_ev)) = self.problem_at(ci) else { return false };
        let Some(w) = self.checker_at(ci) else { return false };
        if p.len() < 2 {
            return false;
        }
        let g = self.g_at(ci);
        let acc = self.accepted(setup_ev, self.out.calls[ci].ev_hi);
        let mut long_segments = 0;
        for i in 0..p.len() - 1 {
            if g.d(&p[i], &p[i + 1]) > g.lvs_ref() {
                long_segments += 1;
            }
            if let Some(seen) = seen.as_mut() {
                let key = (setup_ev, p[i].iter().map(|x| x.to_bits()).collect::<Vec<u64>>(), p[i + 1].iter().map(|x| x.to_bits()).collect::<Vec<u64>>());
                if !seen.insert(key) {
                    continue;
                }
            }
            if let Some((gap, at)) = self.coverage_gap_g(g, &acc, &p[i], &p[i + 1]) {
                v.push(viol(
                    "C03",
                    format!("C03/unchecked_gap/{}", self.pk()),
                    format!(
                        "segment #{i} {}→{} (length {}) has no accepted validity query for a stretch of {gap} starting at {at}; resolution L={}",
                        fmt_state(&p[i]),
                        fmt_state(&p[i + 1]),
                        g.d(&p[i], &p[i + 1]),
                        g.lvs_ref()
                    ),
                ));
                break;
            }
            if let Some(at) = self.invalid_stretch(g, w, &p[i], &p[i + 1]) {
                v.push(viol(
                    "C03",
                    format!("C03/invalid_stretch/{}", self.pk()),
                    format!("segment #{i} crosses an invalid stretch longer than 1.25 L near position {at}"),
                ));
                break;
            }
        }
        long_segments > 0
    }

    // ----------------------------------------------------------------------------------
    // C04

    pub fn c04(&self, ci: usize, v: &mut Vec<Violation>) -> bool {
        let Res::Path(p) = &self.out.calls[ci].res else { return false };
        let Some((prob, setup_ev)) = self.problem_at(ci) else { return false };
        // premise: start and every goal sample within bounds — judged with the harness's own
        // excess function built from the scenario's bounds, never with the library's
        // satisfies_bounds (which is part of what is under test)
        let (_, ea) = self.geo.eps();
        let tol = ea.max(1e-9);
        if bounds_excess(self.space_at(ci), &prob.starts[0]).0 > tol {
            return false;
        }
        let hi = self.out.calls[ci].ev_hi;
        let mut sampled: Vec<&St> = vec![];
        for e in &self.out.log[setup_ev..hi] {
            match e {
                Ev::SG(Some(s)) => {
                    if bounds_excess(self.space_at(ci), s).0 > tol {
                        return false;
                    }
                    sampled.push(s);
                }
                Ev::SU(Some(s)) => sampled.push(s),
                _ => {}
            }
        }
        for (i, s) in p.iter().enumerate() {
            let (ex, kind) = bounds_excess(self.space_at(ci), s);
            if ex > tol {
                let origin = if sampled.iter().any(|q| bits_eq(q, s)) { "sampled" } else { "interpolated" };
                v.push(viol(
                    "C04",
                    format!("C04/{kind}/{origin}"),
                    format!(
                        "{}: path state #{i} {} lies outside the {kind} bound by {ex} ({origin} state; start and all goal samples were in bounds)",
                        self.pk(),
                        fmt_state(s)
                    ),
                ));
                break;
            }
        }
        true
    }

    // ----------------------------------------------------------------------------------
    // C05

    pub fn step_bound(&self) -> f64 {
        self.step_bound_at(self.scn.calls.len())
    }
    /// extension bound with the planner parameters in force at call `ci`
    pub fn step_bound_at(&self, ci: usize) -> f64 {
        let p = &self.scn.planner_at(ci);
        match p.kind {
            PlannerKind::RRT | PlannerKind::RRTConnect => p.max_distance,
            PlannerKind::RRTStar => p.max_distance.max(p.search_radius),
            PlannerKind::PRM => p.connection_radius,
        }
    }

    pub fn c05(&self, ci: usize, v: &mut Vec<Violation>) -> bool {
        let Res::Path(p) = &self.out.calls[ci].res else { return false };
        if p.len() < 2 {
            return false;
        }
        let b = self.step_bound_at(ci);
        let (er, ea) = self.geo.eps();
        for i in 0..p.len() - 1 {
            let d = self.geo.d(&p[i], &p[i + 1]);
            if !(d <= b * (1.0 + er) + ea) {
                v.push(viol(
                    "C05",
                    format!("C05/step_exceeded/{}", self.pk()),
                    format!("states #{i},#{} are {d} apart; configured extension bound {b}", i + 1),
                ));
                break;
            }
        }
        true
    }

    // ----------------------------------------------------------------------------------
    // C06

    /// Clause 1 (overrun): after the deadline has passed, no full planning iteration runs.
    /// Returns (violation?, deadline event kind) for a Solve / Construct call.
    pub fn c06_overrun(&self, ci: usize, v: &mut Vec<Violation>) -> Option<&'static str> {
        let call = &self.out.calls[ci];
        if matches!(call.res, Res::Panic(_) | Res::Abort(_) | Res::Skipped) {
            return None;
        }
        let timeout_ns: u64 = match &self.scn.calls[ci] {
            CallSpec::Solve { timeout_ns, .. } => *timeout_ns,
            CallSpec::Construct { .. } => {
                let t = self.scn.planner_at(ci).prm_timeout_s * 1e9;
                if !(t >= 0.0) {
                    return None;
                }
                if t > 1e18 {
                    u64::MAX
                } else {
                    t.ceil() as u64
                }
            }
            _ => return None,
        };
        let evs = &self.out.log[call.ev_lo..call.ev_hi];
        let times = &self.out.times[call.ev_lo..call.ev_hi];
        // t0 = first clock read of the call (Instant::now()); e_d = first event after which
        // now - t0 > T
        let mut t0 = None;
        let mut ed: Option<(usize, i32)> = None;
        for (i, e) in evs.iter().enumerate() {
            if t0.is_none() {
                if let Ev::Clock(t) = e {
                    t0 = Some(*t);
                }
            }
            if let Some(t0) = t0 {
                if times[i].saturating_sub(t0) > timeout_ns {
                    let ph = match e.phase() {
                        Some(Phase::Sample) => 0,
                        Some(Phase::Valid) => 1,
                        Some(Phase::GoalSat) => 2,
                        None => -1,
                    };
                    ed = Some((i, ph));
                    break;
                }
            }
        }
        let (edi, edp) = ed?;
        let kind = match edp {
            0 => "deadline_in_sampler",
            1 => "deadline_mid_motion_check",
            2 => "deadline_in_goal_test",
            _ => "deadline_at_clock_read",
        };
        // PRM::solve's BFS: the only events are clock reads; at most one further read.
        let is_prm_solve = self.scn.planner.kind == PlannerKind::PRM && matches!(self.scn.calls[ci], CallSpec::Solve { .. });
        let after = &evs[edi + 1..];
        if is_prm_solve {
            let reads = after.iter().filter(|e| matches!(e, Ev::Clock(_))).count();
            if reads > 1 && matches!(call.res, Res::Err(_) | Res::Path(_)) {
                v.push(viol(
                    "C06",
                    format!("C06/overrun_bfs/{}", self.pk()),
                    format!("PRM::solve kept searching for {reads} further deadline checks after the time limit had passed"),
                ));
            }
            return Some("deadline_in_bfs");
        }
        // No full planning iteration may run after e_d. Iterations are delimited by sampling
        // events. If e_d is itself a sampling event or a deadline check (clock read), any
        // later sampling event means a whole iteration ran after the limit had passed; if e_d
        // lies inside an iteration (validity query, goal test), one later sampling event may
        // belong to the iteration in which the next deadline check falls, two may not.
        let s_after_n = after.iter().filter(|e| e.phase() == Some(Phase::Sample)).count();
        let bad = if edp <= 0 { s_after_n >= 1 } else { s_after_n >= 2 };
        if bad {
            let s_after = after.iter().filter(|e| e.phase() == Some(Phase::Sample)).count();
            v.push(viol(
                "C06",
                format!("C06/overrun/{}", self.pk()),
                format!(
                    "time limit {timeout_ns} ns passed at event #{edi} of the call ({kind}) but the planner ran at least one more full iteration ({s_after} further sampling events) before returning {}",
                    call.res.short()
                ),
            ));
        }
        Some(kind)
    }
}
