//! Harness-owned pseudo-random generator. Everything a run does derives from one integer.

use rand::RngCore;

#[inline]
pub fn splitmix(x: &mut u64) -> u64 {
    *x = x.wrapping_add(0x9E3779B97F4A7C15);
    let mut z = *x;
    z = (z ^ (z >> 30)).wrapping_mul(0xBF58476D1CE4E5B9);
    z = (z ^ (z >> 27)).wrapping_mul(0x94D049BB133111EB);
    z ^ (z >> 31)
}

/// Mixes (seed, property tag, run index) into one stream seed.
pub fn mix(seed: u64, tag: &str, index: u64) -> u64 {
    let mut h = seed ^ 0xD6E8FEB86659FD93;
    let mut out = splitmix(&mut h);
    for b in tag.bytes() {
        h ^= b as u64;
        out ^= splitmix(&mut h);
    }
    h ^= index.wrapping_mul(0xA24BAED4963EE407);
    out ^ splitmix(&mut h)
}

#[derive(Clone, Debug)]
pub struct Xo {
    s: [u64; 4],
}

impl Xo {
    pub fn new(seed: u64) -> Self {
        let mut x = seed;
        let s = [
            splitmix(&mut x),
            splitmix(&mut x),
            splitmix(&mut x),
            splitmix(&mut x),
        ];
        Xo { s }
    }
    #[inline]
    pub fn u64(&mut self) -> u64 {
        let result = self.s[1].wrapping_mul(5).rotate_left(7).wrapping_mul(9);
        let t = self.s[1] << 17;
        self.s[2] ^= self.s[0];
        self.s[3] ^= self.s[1];
        self.s[1] ^= self.s[2];
        self.s[0] ^= self.s[3];
        self.s[2] ^= t;
        self.s[3] = self.s[3].rotate_left(45);
        result
    }
    /// Uniform in [0,1).
    pub fn f(&mut self) -> f64 {
        (self.u64() >> 11) as f64 * (1.0 / 9007199254740992.0)
    }
    pub fn range(&mut self, lo: f64, hi: f64) -> f64 {
        lo + (hi - lo) * self.f()
    }
    /// Log-uniform in [lo,hi], both > 0.
    pub fn log_range(&mut self, lo: f64, hi: f64) -> f64 {
        (lo.ln() + (hi.ln() - lo.ln()) * self.f()).exp()
    }
    pub fn below(&mut self, n: u64) -> u64 {
        if n == 0 {
            0
        } else {
            self.u64() % n
        }
    }
    pub fn usize_in(&mut self, lo: usize, hi_incl: usize) -> usize {
        lo + self.below((hi_incl - lo + 1) as u64) as usize
    }
    pub fn chance(&mut self, p: f64) -> bool {
        self.f() < p
    }
    pub fn pick<'a, T>(&mut self, xs: &'a [T]) -> &'a T {
        &xs[self.below(xs.len() as u64) as usize]
    }
    pub fn fork(&mut self) -> Xo {
        Xo::new(self.u64())
    }
}

impl RngCore for Xo {
    fn next_u32(&mut self) -> u32 {
        (self.u64() >> 32) as u32
    }
    fn next_u64(&mut self) -> u64 {
        self.u64()
    }
    fn fill_bytes(&mut self, dest: &mut [u8]) {
        for chunk in dest.chunks_mut(8) {
            let v = self.u64().to_le_bytes();
            chunk.copy_from_slice(&v[..chunk.len()]);
        }
    }
}

/// FNV-1a 64 over a byte stream; used for event hashes and scenario hashes.
#[derive(Clone, Copy)]
pub struct Fnv(pub u64);
impl Default for Fnv {
    fn default() -> Self {
        Fnv(0xcbf29ce484222325)
    }
}
impl Fnv {
    #[inline]
    pub fn byte(&mut self, b: u8) {
        self.0 ^= b as u64;
        self.0 = self.0.wrapping_mul(0x100000001b3);
    }
    #[inline]
    pub fn u64(&mut self, v: u64) {
        for b in v.to_le_bytes() {
            self.byte(b);
        }
    }
    pub fn f64(&mut self, v: f64) {
        self.u64(v.to_bits());
    }
    pub fn bytes(&mut self, bs: &[u8]) {
        for b in bs {
            self.byte(*b);
        }
    }
}
