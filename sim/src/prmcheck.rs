//! C18 — PRM roadmap and queries against a small reference model.

use std::collections::VecDeque;

use crate::gen::{self, GenOpts};
use crate::oracle::{fmt_state, viol, Eval, Violation};
use crate::prng::{mix, Xo};
use crate::runner::{Check, Report, Tier};
use crate::sim::{run, ErrKind, Ev, Res, RunOpts, Snap};
use crate::spaces::{bits_eq, geo_for};
use crate::spec::*;
use crate::treechecks::alphabet;

pub struct C18;

fn bfs_hops(adj: &[Vec<usize>], sources: &[usize], goals: &[bool]) -> Option<usize> {
    let mut dist = vec![usize::MAX; adj.len()];
    let mut q = VecDeque::new();
    for s in sources {
        if dist[*s] == usize::MAX {
            dist[*s] = 1;
            q.push_back(*s);
        }
    }
    let mut best: Option<usize> = None;
    while let Some(u) = q.pop_front() {
        if goals[u] {
            best = Some(best.map_or(dist[u], |b: usize| b.min(dist[u])));
        }
        for v in &adj[u] {
            if *v < adj.len() && dist[*v] == usize::MAX {
                dist[*v] = dist[u] + 1;
                q.push_back(*v);
            }
        }
    }
    best
}

impl Check for C18 {
    fn id(&self) -> &'static str {
        "C18"
    }
    fn rule(&self) -> String {
        "indices below 12 x sequences: EVERY sample sequence up to length 6 (quick) / 7 (thorough) over a 4- (5-) state alphabet in 12 fixtures (6 space kinds x {alphabet world, obstacle-free}); remaining indices: scenario i = space, world (obstacle-free for the exact clauses, obstructed for soundness), connection radius, a sample budget N fixed by the virtual clock (a stall at the N-th sample, N from 1 up), sampling passthrough or scripted over a state alphabet, two problems, and a call history (construct, construct again, solve, replace problem, solve; a query interrupted by a zero time limit; slow queries; one scenario in twenty has the user's validity checker unwind inside construction, caught by the caller who goes on); connection radius exactly an alphabet distance in half of the fixtures; the reference model replays the recorded sample stream and validity answers; distinct = distinct scenario hash; non-trivial = the roadmap has at least 2 milestones and a query executed".into()
    }
    fn default_runs(&self, tier: Tier) -> u64 {
        match tier {
            Tier::Quick => 12 * crate::treechecks::seq_total(4, 6) + 50_000,
            Tier::Thorough => 12 * crate::treechecks::seq_total(5, 7) + 1_000_000,
        }
    }
    fn assumptions(&self) -> Vec<String> {
        vec![
            "pairs within 1e-9 (relative) of the connection-radius threshold are exempt from the iff clauses".into(),
            "completeness and hop-minimality are exact only in obstacle-free worlds with convex bounds; elsewhere the model uses the start links the history proves (accepted coverage, no rejected query on the segment)".into(),
        ]
    }
    fn required_probes(&self) -> Vec<&'static str> {
        vec!["query_ok", "query_no_solution", "obstacle_free", "second_construct", "problem_replaced", "multi_hop", "scripted", "edge_iff_checked"]
    }

    fn generate(&self, seed: u64, index: u64, tier: Tier) -> Scenario {
        let (a, d) = if tier == Tier::Thorough { (5u64, 7u32) } else { (4u64, 6u32) };
        let per = crate::treechecks::seq_total(a, d);
        if index < 12 * per {
            // EVERY sample sequence up to depth d over the fixture's alphabet
            let f = index / per;
            let (mut scn, alpha) = crate::treechecks::fixture("C18", seed, f, PlannerKind::PRM, a as usize);
            scn.index = index;
            let seq = crate::treechecks::nth_sequence(a, index % per);
            scn.sampling.script = seq.iter().map(|i| alpha[*i].clone()).collect();
            scn.problems[0].goal.radius = scn.problems[0].goal.radius.max(0.2 * scn.param("ext").unwrap_or(1.0));
            scn.calls = vec![
                CallSpec::Setup { problem: 0 },
                gen::construct_call(seq.len() as u64),
                gen::construct_call(3),
                CallSpec::Solve { timeout_ns: 1_000_000_000_000, stalls: vec![] },
            ];
            // every other fixture: the connection radius is EXACTLY the distance between two
            // alphabet states (such a pair must not be linked: "closer than the radius")
            if f % 2 == 1 {
                let geo = geo_for(&scn.space).unwrap();
                let (i, j) = [(0usize, 1usize), (1, 2), (0, 2), (2, 3), (1, 3), (0, 3)][((f / 2) % 6) as usize];
                if i < alpha.len() && j < alpha.len() {
                    let d = geo.d(&alpha[i], &alpha[j]);
                    if d > 0.0 && d.is_finite() {
                        scn.planner.connection_radius = d;
                        scn.params.insert("radius_is_a_distance".into(), 1.0);
                    }
                }
            }
            scn.params.insert("enumerated".into(), 1.0);
            return scn;
        }
        let mut rng = Xo::new(mix(seed, "C18", index));
        let free = rng.chance(0.5);
        let o = GenOpts {
            planner: Some(PlannerKind::PRM),
            families: if free { vec!["open"] } else { vec!["balls", "balls", "shell_door", "thin_wall", "goal_overlap", "zero_weight"] },
            max_iters: if tier == Tier::Thorough { 200 } else { 60 },
            min_frac: 0.01,
            query_budget: 3e4,
            goal_sampler: Some(GoalSampler::Fixed),
            ..Default::default()
        };
        let mut scn = gen::base(&mut rng, "C18", seed, index, &o);
        let ext = scn.param("ext").unwrap_or(1.0);
        if rng.chance(0.7) {
            scn.planner.connection_radius = ext * rng.range(0.15, 0.5);
        }
        // goal regions large enough that some milestone lands in them
        scn.problems[0].goal.radius = scn.problems[0].goal.radius.max(ext * rng.range(0.08, 0.25));
        let n = match &scn.calls[1] {
            CallSpec::Construct { stalls } => stalls[0].nth,
            _ => 10,
        };
        // second problem in the same world
        let mut geo = geo_for(&scn.space).unwrap();
        geo.set_worlds(&scn.worlds);
        let mut pick = |rng: &mut Xo| -> St {
            for _ in 0..200 {
                if let Some(s) = geo.sample(rng) {
                    if geo.valid(0, &s) {
                        return s;
                    }
                }
            }
            scn.problems[0].starts[0].clone()
        };
        let (s2, t2) = (pick(&mut rng), pick(&mut rng));
        let g = scn.problems[0].goal.clone();
        scn.problems.push(ProblemSpec { starts: vec![s2], goal: GoalSpec { target: t2, radius: g.radius, sampler: GoalSampler::Fixed, sampler_seed: 0, comp: None, harness_metric: g.harness_metric, cycle: vec![] }, world: 0 , space: None});
        let big = || CallSpec::Solve { timeout_ns: 1_000_000_000_000, stalls: vec![] };
        scn.calls = match rng.below(6) {
            0 => vec![CallSpec::Setup { problem: 0 }, gen::construct_call(n), big()],
            1 => vec![CallSpec::Setup { problem: 0 }, gen::construct_call(n), gen::construct_call(n + 5), big()],
            2 => vec![CallSpec::Setup { problem: 0 }, gen::construct_call(n), big(), CallSpec::SetProblem { problem: 1 }, big()],
            3 => vec![CallSpec::Setup { problem: 0 }, gen::construct_call(n), CallSpec::SetProblem { problem: 1 }, gen::construct_call(n), big(), CallSpec::SetProblem { problem: 0 }, big()],
            // a query interrupted in the graph search (time limit 0), then other queries
            5 => vec![CallSpec::Setup { problem: 0 }, gen::construct_call(n), CallSpec::Solve { timeout_ns: 0, stalls: vec![] }, CallSpec::SetProblem { problem: 1 }, big(), CallSpec::SetProblem { problem: 0 }, big()],
            _ => vec![CallSpec::Setup { problem: 1 }, gen::construct_call(n), big(), big()],
        };
        // a slow query: one validity query of the start-attachment phase takes ten times the
        // query's time limit (that phase runs before PRM::solve starts its clock, so the answer
        // must be the complete one — or Timeout — all the same)
        if rng.chance(0.25) {
            for c in scn.calls.iter_mut() {
                if let CallSpec::Solve { timeout_ns, stalls } = c {
                    if rng.chance(0.7) {
                        *timeout_ns = 1_000_000_000;
                        *stalls = vec![Stall { at: Phase::Valid, nth: 1 + rng.below(3 * n.max(1)), ns: 10_000_000_000 }];
                    }
                }
            }
            scn.params.insert("slow_query".into(), 1.0);
        }
        // the construction deadline may also fall inside a validity query of the last sample's
        // neighbour sweep (the model reads milestones off the history whatever the deadline did)
        if rng.chance(0.3) {
            if let CallSpec::Construct { stalls } = &mut scn.calls[1] {
                let k = 1 + rng.below(n * 6);
                stalls.insert(0, Stall { at: Phase::Valid, nth: k, ns: STALL_NS });
            }
        }
        if rng.chance(0.45) {
            let anchors = vec![scn.problems[0].starts[0].clone(), scn.problems[0].goal.target.clone(), scn.problems[1].goal.target.clone()];
            let asz = rng.usize_in(4, 10);
            let alpha = alphabet(&*geo, &mut rng, &anchors, asz);
            let mut script = vec![];
            for _ in 0..n {
                if rng.chance(0.75) {
                    script.push(rng.pick(&alpha).clone());
                } else if let Some(s) = geo.sample(&mut rng) {
                    script.push(s);
                }
            }
            // a third of the scripted scenarios: the radius is exactly the distance between two
            // alphabet states
            if rng.chance(0.33) && alpha.len() >= 2 {
                let (i, j) = (rng.below(alpha.len() as u64) as usize, rng.below(alpha.len() as u64) as usize);
                let d = geo.d(&alpha[i], &alpha[j]);
                if d > 0.0 && d.is_finite() {
                    scn.planner.connection_radius = d;
                    scn.params.insert("radius_is_a_distance".into(), 1.0);
                }
            }
            scn.sampling.script = script;
            scn.family = format!("{}+alphabet", scn.family);
        }
        // one scenario in twenty: the user's validity checker UNWINDS at its k-th call inside
        // roadmap construction; the caller catches it and goes on with the roadmap built so far
        // (construct again: a no-op; queries). What construction had done up to that instant
        // must be a well-formed roadmap.
        if rng.chance(0.05) {
            let k = 4 + rng.below(6 * n.max(1));
            scn.faults.push(FaultSpec::ValidityPanicAt { at_call: k });
            scn.calls = vec![CallSpec::Setup { problem: 0 }, gen::construct_call(n), gen::construct_call(n), big(), CallSpec::SetProblem { problem: 1 }, big()];
            scn.params.insert("interrupted_construction".into(), 1.0);
        }
        // another one in twenty: the checker unwinds inside the FIRST QUERY (at one of its
        // start-attachment motion checks; the position is found with a dry run in evaluate); the
        // caller catches it and asks the same query again, then replaces the problem and asks
        // again. Whatever the interrupted query left behind, the later ones are judged in full.
        else if rng.chance(0.05) {
            scn.calls = vec![CallSpec::Setup { problem: 0 }, gen::construct_call(n), big(), big(), CallSpec::SetProblem { problem: 1 }, big(), CallSpec::SetProblem { problem: 0 }, big()];
            scn.params.insert("interrupted_query".into(), rng.below(1 << 20) as f64);
        }
        // a tenth of the scenarios assign the public parameter fields after setup (the
        // constructor got other values)
        if rng.chance(0.1) {
            let ctor = gen::gen_planner(&mut rng, PlannerKind::PRM, ext);
            scn.reconfigure_after_setup(ctor);
        }
        scn
    }

    fn evaluate(&self, scn: &Scenario) -> Report {
        let mut rep = Report::default();
        let derived;
        let mut scn = scn;
        if let Some(r) = scn.param("interrupted_query") {
            let dry = run(scn, &RunOpts { snapshots: false, ..Default::default() });
            if let Some(ci) = scn.calls.iter().position(|c| matches!(c, CallSpec::Solve { .. })) {
                if let Some(call) = dry.calls.get(ci) {
                    let before = dry.log[..call.ev_lo].iter().filter(|e| matches!(e, Ev::Valid(..))).count() as u64;
                    let inside = dry.log[call.ev_lo..call.ev_hi].iter().filter(|e| matches!(e, Ev::Valid(..))).count() as u64;
                    if inside > 0 {
                        let mut d = scn.clone();
                        d.faults.push(FaultSpec::ValidityPanicAt { at_call: before + 1 + (r as u64) % inside });
                        derived = d;
                        scn = &derived;
                        rep.probe("query_interrupted");
                    }
                }
            }
        }
        let out = run(scn, &RunOpts::default());
        rep.absorb(&out);
        if !scn.sampling.script.is_empty() {
            rep.probe("scripted");
        }
        if scn.param("enumerated").is_some() {
            rep.probe("enumerated_sequence");
        }
        let ev = Eval::new(scn, &out);
        let g = &ev.geo;
        let r = scn.planner_at(scn.calls.len()).connection_radius;
        let w = 0usize;
        let free = scn.worlds[0].obstacles.is_empty() && crate::treechecks::bounds_convex(&scn.space);
        if free {
            rep.probe("obstacle_free");
        }
        let mut v: Vec<Violation> = vec![];
        let mut model_ms: Vec<St> = vec![];
        let mut roadmap: Option<Vec<(St, Vec<usize>)>> = None;
        let mut setup_ev = 0usize;
        let mut constructed = false;
        'calls: for (ci, call) in out.calls.iter().enumerate() {
            if matches!(call.res, Res::Panic(_) | Res::Abort(_)) {
                rep.probe("planner_panic_noted");
                break;
            }
            let evs = &out.log[call.ev_lo..call.ev_hi];
            match &scn.calls[ci] {
                CallSpec::Setup { .. } => {
                    setup_ev = call.ev_lo;
                    model_ms.clear();
                    roadmap = None;
                    constructed = false;
                }
                CallSpec::Construct { .. } => {
                    let Some(Snap::Prm(snap)) = &call.snap else { continue };
                    if constructed && roadmap.as_ref().is_some_and(|r| !r.is_empty()) {
                        rep.probe("second_construct");
                        if evs.iter().any(|e| matches!(e, Ev::SU(_))) || Some(snap) != roadmap.as_ref() {
                            v.push(viol("C18", "C18/reconstruct_changes_roadmap".into(), "a repeated construct_roadmap call sampled again or changed the roadmap".into()));
                            break 'calls;
                        }
                        continue;
                    }
                    constructed = true;
                    let interrupted = matches!(call.res, Res::UserPanic);
                    if interrupted {
                        rep.probe("construction_interrupted");
                    }
                    // model: milestones = samples whose first validity answer was true
                    let mut i = 0;
                    while i < evs.len() {
                        if let Ev::SU(Some(q)) = &evs[i] {
                            let mut j = i + 1;
                            while j < evs.len() && matches!(evs[j], Ev::Clock(_)) {
                                j += 1;
                            }
                            if let Some(Ev::Valid(s, ans)) = evs.get(j) {
                                if bits_eq(s, q) && *ans {
                                    model_ms.push(q.clone());
                                }
                            }
                        }
                        i += 1;
                    }
                    // (an interrupted construction: the sample being processed when the checker
                    // unwound may or may not have become a milestone — the model allows both)
                    if interrupted && snap.len() + 1 == model_ms.len() {
                        model_ms.pop();
                    }
                    if snap.len() != model_ms.len() || !snap.iter().zip(&model_ms).all(|(a, b)| bits_eq(&a.0, b)) {
                        v.push(viol(
                            "C18",
                            "C18/milestones_differ".into(),
                            format!("the roadmap holds {} milestones but the sample stream contains {} valid samples (or their states/order differ)", snap.len(), model_ms.len()),
                        ));
                        break 'calls;
                    }
                    // structure
                    let n = snap.len();
                    for (a, (_, adj)) in snap.iter().enumerate() {
                        let mut seen = std::collections::BTreeSet::new();
                        for b in adj {
                            if *b >= n {
                                v.push(viol("C18", "C18/edge_out_of_range".into(), format!("milestone {a} links to {b} but there are {n} milestones")));
                                break 'calls;
                            }
                            if *b == a {
                                v.push(viol("C18", "C18/self_link".into(), format!("milestone {a} links to itself")));
                                break 'calls;
                            }
                            if !seen.insert(*b) {
                                v.push(viol("C18", "C18/duplicate_link".into(), format!("milestone {a} lists {b} twice")));
                                break 'calls;
                            }
                            if !snap[*b].1.contains(&a) {
                                v.push(viol("C18", "C18/asymmetric_link".into(), format!("milestone {a} links to {b} but not the reverse")));
                                break 'calls;
                            }
                        }
                    }
                    // accepted queries grouped by the construction iteration (= sample) they belong
                    // to: the link a-b (a > b) must have been validated when a was added
                    let mut acc_of: Vec<Vec<&St>> = vec![];
                    {
                        let mut cur: Option<Vec<&St>> = None;
                        let mut is_ms = false;
                        let mut first = true;
                        for e in evs {
                            match e {
                                Ev::SU(_) => {
                                    if let Some(c) = cur.take() {
                                        if is_ms {
                                            acc_of.push(c);
                                        }
                                    }
                                    cur = Some(vec![]);
                                    is_ms = false;
                                    first = true;
                                }
                                Ev::Valid(s, ans) => {
                                    if first {
                                        is_ms = *ans;
                                        first = false;
                                    }
                                    if *ans {
                                        if let Some(c) = cur.as_mut() {
                                            c.push(s);
                                        }
                                    }
                                }
                                _ => {}
                            }
                        }
                        if let Some(c) = cur.take() {
                            if is_ms {
                                acc_of.push(c);
                            }
                        }
                    }
                    let n_edges: usize = snap.iter().map(|x| x.1.len()).sum::<usize>() / 2;
                    let stride = (n_edges / 60).max(1);
                    let mut edge_no = 0usize;
                    let mut threshold = false;
                    for a in 0..n {
                        for b in 0..a {
                            let d = g.d(&snap[a].0, &snap[b].0);
                            let linked = snap[a].1.contains(&b);
                            let near_thr = (d - r).abs() <= 1e-9 * r.abs();
                            threshold |= near_thr;
                            if linked {
                                // the planner links on `distance < radius` evaluated in one of the
                                // two argument orders: a link whose distance is not below the
                                // radius in EITHER order (exactly the radius, beyond it, NaN) was
                                // not allowed — no tolerance is needed for this direction
                                let dm = d.min(g.d(&snap[b].0, &snap[a].0));
                                if !(dm < r) {
                                    v.push(viol("C18", "C18/link_beyond_radius".into(), format!("milestones {a},{b} are linked at distance {d} >= connection radius {r}")));
                                    break 'calls;
                                }
                                edge_no += 1;
                                if edge_no % stride != 0 {
                                    continue;
                                }
                                let empty: Vec<&St> = vec![];
                                let acc = acc_of.get(a).unwrap_or(&empty);
                                if let Some((gap, at)) = ev.coverage_gap(acc, &snap[a].0, &snap[b].0) {
                                    v.push(viol("C18", "C18/link_not_validated".into(), format!("link {a}-{b} (length {d}) has an unvalidated stretch of {gap} at {at}")));
                                    break 'calls;
                                }
                                // "joined by a validated motion", looked at directly along the
                                // harness's own interpolation
                                if let Some(at) = ev.invalid_stretch(&**g, w, &snap[a].0, &snap[b].0) {
                                    v.push(viol("C18", "C18/link_crosses_invalid_stretch".into(), format!("link {a}-{b} (length {d}) crosses an invalid stretch longer than 1.25 L near position {at}")));
                                    break 'calls;
                                }
                            } else if free && d < r && !near_thr {
                                v.push(viol("C18", "C18/missing_link".into(), format!("obstacle-free world: milestones {a},{b} are {d} < {r} apart but not linked")));
                                break 'calls;
                            }
                        }
                    }
                    if free {
                        rep.probe("edge_iff_checked");
                    }
                    if threshold {
                        rep.probe("threshold_pair_exempted");
                    }
                    roadmap = Some(snap.clone());
                }
                CallSpec::SetProblem { .. } => {
                    if let (Some(Snap::Prm(snap)), Some(rm)) = (&call.snap, &roadmap) {
                        rep.probe("problem_replaced");
                        if snap != rm || evs.iter().any(|e| matches!(e, Ev::SU(_))) {
                            v.push(viol("C18", "C18/replace_problem_changes_roadmap".into(), "set_problem_definition changed the roadmap or sampled".into()));
                            break 'calls;
                        }
                    }
                }
                CallSpec::Solve { .. } => {
                    let Some(rm) = &roadmap else { continue };
                    let Some((prob, _)) = ev.problem_at(ci) else { continue };
                    if rm.is_empty() {
                        continue;
                    }
                    let start = &prob.starts[0];
                    if !g.valid(w, start) {
                        continue;
                    }
                    if rm.len() >= 2 {
                        rep.nontrivial = true;
                    }
                    let n = rm.len();
                    let adj: Vec<Vec<usize>> = rm.iter().map(|x| x.1.clone()).collect();
                    let goals: Vec<bool> = rm.iter().map(|x| crate::oracle::goal_sat(&**g, &prob.goal, &x.0)).collect();
                    let rejected: Vec<&St> = evs.iter().filter_map(|e| match e { Ev::Valid(s, false) | Ev::OutOfBounds(s) => Some(s), _ => None }).collect();
                    let acc: Vec<&St> = evs.iter().filter_map(|e| if let Ev::Valid(s, true) = e { Some(s) } else { None }).collect();
                    let l = g.lvs();
                    let mut s_sure = vec![];
                    let mut s_maybe = vec![];
                    let mut ambiguous = false;
                    for i in 0..n {
                        let d = g.d(start, &rm[i].0);
                        let near_thr = (d - r).abs() <= 1e-9 * r.abs();
                        if near_thr {
                            ambiguous = true;
                            s_maybe.push(i);
                            continue;
                        }
                        if !(d < r) {
                            continue;
                        }
                        if free {
                            s_sure.push(i);
                            s_maybe.push(i);
                            continue;
                        }
                        let rej = rejected.iter().any(|q| g.on_segment(start, &rm[i].0, q, d).is_some());
                        let covered = ev.coverage_gap(&acc, start, &rm[i].0).is_none();
                        if !rej && covered && d > l {
                            s_sure.push(i);
                        }
                        // soundness only needs the link to have been validated at the resolution; a
                        // rejected query on the segment may belong to another milestone's check
                        // (in 1-D spaces every segment overlaps every other)
                        if covered {
                            s_maybe.push(i);
                        }
                    }
                    if std::env::var("VERIF_DEBUG").is_ok() {
                        eprintln!("n={n} r={r} l={l} s_sure={s_sure:?} s_maybe={s_maybe:?} goals={goals:?} res={} rejected={} acc={}", call.res.short(), rejected.len(), acc.len());
                        for i in 0..n {
                            eprintln!("  m{i}: d={} adj={:?} inb={}", g.d(start, &rm[i].0), adj[i], g.in_bounds(&rm[i].0));
                        }
                        let kinds: String = evs.iter().map(|e| e.kind_byte() as char).collect();
                        eprintln!("  evs={kinds}");
                    }
                    let opt_sure = bfs_hops(&adj, &s_sure, &goals);
                    let opt_maybe = bfs_hops(&adj, &s_maybe, &goals);
                    match &call.res {
                        Res::Path(p) => {
                            rep.probe("query_ok");
                            if p.len() < 2 || !bits_eq(&p[0], start) {
                                v.push(viol("C18", "C18/path_shape".into(), "a PRM path must be the start followed by at least one milestone".into()));
                                break 'calls;
                            }
                            let chain = &p[1..];
                            if chain.len() > 1 {
                                rep.probe("multi_hop");
                            }
                            // chain follows roadmap edges (duplicate milestones: track every index
                            // the state can stand for)
                            let mut cur: Vec<usize> = vec![];
                            for (k, s) in chain.iter().enumerate() {
                                let same: Vec<usize> = (0..n).filter(|i| bits_eq(&rm[*i].0, s)).collect();
                                let next: Vec<usize> = if k == 0 {
                                    let linked: Vec<usize> = same.iter().copied().filter(|i| s_maybe.contains(i)).collect();
                                    if linked.is_empty() && !same.is_empty() {
                                        v.push(viol("C18", "C18/start_link_unsound".into(), format!("the path leaves the start toward milestone {} {}, which is not within the radius by a validated motion", same[0], fmt_state(s))));
                                        break 'calls;
                                    }
                                    linked
                                } else {
                                    same.iter().copied().filter(|j| cur.iter().any(|i| adj[*i].contains(j))).collect()
                                };
                                if next.is_empty() {
                                    v.push(viol("C18", "C18/chain_not_in_roadmap".into(), format!("path state #{} is not a milestone adjacent to its predecessor", k + 1)));
                                    break 'calls;
                                }
                                cur = next;
                            }
                            if !cur.iter().any(|i| goals[*i]) {
                                v.push(viol("C18", "C18/chain_end_not_goal".into(), "the last milestone of the path does not satisfy the goal".into()));
                                break 'calls;
                            }
                            if let Some(opt) = opt_sure {
                                if chain.len() > opt {
                                    v.push(viol("C18", "C18/not_hop_minimal".into(), format!("the path visits {} milestones but {opt} suffice", chain.len())));
                                    break 'calls;
                                }
                            }
                            if opt_maybe.is_none() && !ambiguous {
                                v.push(viol("C18", "C18/success_without_connection".into(), "the query succeeded although no start link is graph-connected to a goal milestone".into()));
                                break 'calls;
                            }
                        }
                        Res::Err(ErrKind::NoSolutionFound) => {
                            rep.probe("query_no_solution");
                            if let Some(opt) = opt_sure {
                                v.push(viol(
                                    "C18",
                                    "C18/incomplete_query".into(),
                                    format!("the query reported NoSolutionFound although a start link is graph-connected to a goal milestone ({opt} hops)"),
                                ));
                                break 'calls;
                            }
                        }
                        Res::Err(ErrKind::Timeout) => {
                            rep.probe("query_timeout");
                        }
                        // the injected unwinding fell into this query: nothing to judge
                        Res::UserPanic => {}
                        other => {
                            v.push(viol("C18", "C18/unexpected_result".into(), format!("query returned {}", other.short())));
                            break 'calls;
                        }
                    }
                }
                CallSpec::New | CallSpec::SetParams { .. } => {}
            }
        }
        rep.violations = v;
        rep
    }
}
