//! Seeded search over scenarios: parallel execution, merge in run-index order, triage against
//! known findings, minimisation, replay files, evidence.

use std::collections::{BTreeMap, BTreeSet};
use std::io::Write;
use std::sync::atomic::{AtomicU64, AtomicUsize, Ordering};
use std::sync::{Arc, Mutex};
use std::time::Instant;

use serde_json::json;

use crate::oracle::Violation;
use crate::spec::{Expect, Scenario};

#[derive(Clone, Copy, Debug, PartialEq, Eq)]
pub enum Tier {
    Quick,
    Thorough,
}
impl Tier {
    pub fn name(&self) -> &'static str {
        match self {
            Tier::Quick => "quick",
            Tier::Thorough => "thorough",
        }
    }
}

#[derive(Clone, Debug, Default)]
pub struct Report {
    pub violations: Vec<Violation>,
    pub nontrivial: bool,
    /// planner executions performed for this scenario (prefix replays, twins, ...)
    pub runs: u64,
    pub sim_ns: u64,
    pub probes: BTreeMap<&'static str, u64>,
    pub faults: BTreeMap<String, u64>,
    pub traces: Vec<u64>,
    pub shapes: Vec<u64>,
    pub event_hash: u64,
    pub transitions: u64,
    /// seam events executed for this scenario (deterministic measure of work)
    pub events: u64,
    /// profiling only (real time; never influences a verdict)
    pub wall_us: u64,
}
impl Report {
    pub fn probe(&mut self, k: &'static str) {
        *self.probes.entry(k).or_insert(0) += 1;
    }
    pub fn probe_n(&mut self, k: &'static str, n: u64) {
        *self.probes.entry(k).or_insert(0) += n;
    }
    pub fn fault(&mut self, k: &str) {
        *self.faults.entry(k.to_string()).or_insert(0) += 1;
    }
    pub fn absorb(&mut self, out: &crate::sim::Outcome) {
        self.runs += 1;
        self.events += out.log.len() as u64;
        self.sim_ns = self.sim_ns.saturating_add(out.sim_ns.min(1 << 50));
        self.traces.push(out.kind_trace_hash());
        for c in &out.calls {
            if let Some(s) = &c.snap {
                self.shapes.push(s.shape_hash());
            }
        }
        let mut h = crate::prng::Fnv(self.event_hash ^ 0x9E3779B97F4A7C15);
        h.u64(out.event_hash());
        self.event_hash = h.0;
        if out.faults_fired > 0 {
            *self.faults.entry("sampler_err".into()).or_insert(0) += out.faults_fired;
        }
        if out.stalls_fired > 0 {
            *self.faults.entry("stall".into()).or_insert(0) += out.stalls_fired;
        }
        let unwound = out.calls.iter().filter(|c| matches!(c.res, crate::sim::Res::UserPanic)).count() as u64;
        if unwound > 0 {
            *self.faults.entry("checker_unwound_in_call".into()).or_insert(0) += unwound;
            let resumed = out.calls.iter().skip_while(|c| !matches!(c.res, crate::sim::Res::UserPanic)).skip(1).count() as u64;
            if resumed > 0 {
                *self.faults.entry("calls_after_an_unwound_call".into()).or_insert(0) += resumed;
            }
        }
    }
}

pub trait Check: Sync + Send {
    fn id(&self) -> &'static str;
    fn level(&self) -> &'static str {
        "exploration"
    }
    fn rule(&self) -> String;
    fn default_runs(&self, tier: Tier) -> u64;
    fn generate(&self, seed: u64, index: u64, tier: Tier) -> Scenario;
    fn evaluate(&self, scn: &Scenario) -> Report;
    fn assumptions(&self) -> Vec<String> {
        vec![]
    }
    /// probes that must be non-zero for the run to count as having reached what it claims
    fn required_probes(&self) -> Vec<&'static str> {
        vec![]
    }
}

pub struct Known {
    pub findings: Vec<(String, String, String)>, // property, signature, what
}

pub fn load_known(dir: &str) -> Known {
    let p = format!("{dir}/known_findings.json");
    let mut findings = vec![];
    if let Ok(s) = std::fs::read_to_string(&p) {
        if let Ok(v) = serde_json::from_str::<serde_json::Value>(&s) {
            if let Some(a) = v.get("findings").and_then(|x| x.as_array()) {
                for f in a {
                    findings.push((
                        f["property"].as_str().unwrap_or("").to_string(),
                        f["signature"].as_str().unwrap_or("").to_string(),
                        f["what"].as_str().unwrap_or("").to_string(),
                    ));
                }
            }
        }
    }
    Known { findings }
}

impl Known {
    pub fn lookup(&self, property: &str, sig: &str) -> Option<&str> {
        self.findings.iter().find(|(p, s, _)| p == property && s == sig).map(|(_, _, w)| w.as_str())
    }
}

pub struct Env {
    pub dir: String,
    /// where evidence and replay files are written (VERIF_OUT, default = dir)
    pub out_dir: String,
    pub seed: u64,
    pub workers: usize,
    pub runs_override: Option<u64>,
    pub out: Mutex<std::fs::File>,
}

impl Env {
    pub fn say(&self, s: &str) {
        let mut o = self.out.lock().unwrap();
        let _ = writeln!(o, "{s}");
        let _ = o.flush();
    }
}

// ------------------------------------------------------------------------------------------
// Watchdog: the only place real time (and resident memory) is consulted, and only to declare
// that a run makes no progress. One thread for the whole process; every evaluation (sweep
// workers, minimisation, replay) registers the scenario it is executing.

pub struct Watch {
    /// (id, scenario json, start, kernel thread id of the executing thread)
    slots: Mutex<Vec<(u64, String, Instant, u64)>>,
    next: AtomicU64,
}
pub static WATCH: std::sync::OnceLock<Watch> = std::sync::OnceLock::new();

pub struct WatchGuard(u64);
impl Drop for WatchGuard {
    fn drop(&mut self) {
        if let Some(w) = WATCH.get() {
            w.slots.lock().unwrap().retain(|(id, _, _, _)| *id != self.0);
        }
    }
}

/// Registers a scenario as "being executed now" until the guard is dropped.
pub fn watch(scn: &Scenario) -> WatchGuard {
    let w = WATCH.get_or_init(|| Watch { slots: Mutex::new(vec![]), next: AtomicU64::new(1) });
    let id = w.next.fetch_add(1, Ordering::SeqCst);
    w.slots.lock().unwrap().push((id, serde_json::to_string(scn).unwrap(), Instant::now(), my_tid()));
    WatchGuard(id)
}

thread_local! { static TID: u64 = std::fs::read_link("/proc/thread-self").ok().and_then(|p| p.file_name().and_then(|f| f.to_str().and_then(|x| x.parse().ok()))).unwrap_or(0); }
fn my_tid() -> u64 {
    TID.with(|t| *t)
}

thread_local! { static CPU_DEADLINE: std::cell::Cell<f64> = const { std::cell::Cell::new(f64::INFINITY) }; }
/// Gives the calling thread `secs` more seconds of its own CPU time (see `cpu_deadline_passed`).
pub fn set_cpu_deadline(secs: f64) {
    let now = thread_cpu_s(my_tid()).unwrap_or(0.0);
    CPU_DEADLINE.with(|d| d.set(now + secs));
}
pub fn cpu_deadline_passed() -> bool {
    let dl = CPU_DEADLINE.with(|d| d.get());
    dl.is_finite() && thread_cpu_s(my_tid()).map(|c| c > dl).unwrap_or(false)
}

/// CPU time (user + system, seconds) consumed so far by kernel thread `tid` of this process.
fn thread_cpu_s(tid: u64) -> Option<f64> {
    let st = std::fs::read_to_string(format!("/proc/self/task/{tid}/stat")).ok()?;
    // fields after the parenthesised command name; utime and stime are fields 14 and 15 overall
    let rest = st.rsplit_once(')')?.1;
    let f: Vec<&str> = rest.split_whitespace().collect();
    let (ut, stt) = (f.get(11)?.parse::<f64>().ok()?, f.get(12)?.parse::<f64>().ok()?);
    Some((ut + stt) / 100.0)
}

pub fn start_watchdog(env: &Arc<Env>, property: String, replay_of: Option<String>) {
    let env = env.clone();
    let _ = WATCH.get_or_init(|| Watch { slots: Mutex::new(vec![]), next: AtomicU64::new(1) });
    std::thread::spawn(move || {
        // A hang is a run that keeps BURNING CPU without finishing: 90 s of the executing
        // thread's own CPU time inside one scenario (ordinary scenarios need milliseconds). Wall
        // time alone proves nothing — the process may have been stopped, the VM suspended or the
        // machine oversubscribed — so it only counts after an hour (a run blocked for good).
        let cpu_limit = 90.0;
        let wall_limit = std::time::Duration::from_secs(3600);
        let mem_limit: u64 = std::env::var("VERIF_MEM_LIMIT_MB").ok().and_then(|s| s.parse().ok()).unwrap_or(16_000) * 1024 * 1024;
        // id -> CPU seconds of its thread when the run was first seen to be older than 5 s
        let mut first_seen: std::collections::HashMap<u64, f64> = std::collections::HashMap::new();
        loop {
            std::thread::sleep(std::time::Duration::from_millis(25));
            let rss = std::fs::read_to_string("/proc/self/statm")
                .ok()
                .and_then(|s| s.split_whitespace().nth(1).and_then(|x| x.parse::<u64>().ok()))
                .map(|pages| pages * 4096)
                .unwrap_or(0);
            let old: Vec<(u64, String, std::time::Duration, u64)> = {
                let g = WATCH.get().unwrap().slots.lock().unwrap();
                g.iter().filter(|(_, _, t, _)| t.elapsed().as_secs() >= 5 || rss > mem_limit).map(|(id, js, t, tid)| (*id, js.clone(), t.elapsed(), *tid)).collect()
            };
            first_seen.retain(|id, _| old.iter().any(|o| o.0 == *id));
            let mut verdict: Option<(String, String)> = None;
            for (id, js, age, tid) in &old {
                let cpu = thread_cpu_s(*tid);
                let burnt = match (cpu, first_seen.get(id)) {
                    (Some(c), Some(f)) => c - f,
                    (Some(c), None) => {
                        first_seen.insert(*id, c);
                        0.0
                    }
                    _ => 0.0,
                };
                if burnt > cpu_limit {
                    verdict = Some((js.clone(), format!("one run burnt {burnt:.0}s of CPU time ({}s of real time) without finishing", age.as_secs())));
                } else if *age > wall_limit {
                    verdict = Some((js.clone(), format!("one run made no progress for {}s of real time", age.as_secs())));
                } else if rss > mem_limit && age.as_millis() > 300 {
                    verdict = Some((js.clone(), format!("resident memory grew to {} MB while one run was executing", rss >> 20)));
                }
                if verdict.is_some() {
                    break;
                }
            }
            let Some((js, why)) = verdict else { continue };
            let path = match &replay_of {
                Some(p) => p.clone(),
                None => {
                    let mut h = crate::prng::Fnv::default();
                    h.bytes(js.as_bytes());
                    let p = format!("{}/replays/{}-hang-{:016x}.json", env.out_dir, property, h.0);
                    let _ = std::fs::create_dir_all(format!("{}/replays", env.out_dir));
                    let _ = std::fs::write(&p, &js);
                    p
                }
            };
            env.say(&format!(
                "VIOLATION property={property} replay={path} sig=watchdog (watchdog: {why}: the planner spins, or allocates without bound, without touching any seam)"
            ));
            std::process::exit(1);
        }
    });
}

pub struct Sweep {
    pub reports: Vec<(Scenario, Report)>,
    pub wall_s: f64,
}

/// Runs scenarios 0..n on `workers` threads; results are merged in index order, so the outcome
/// does not depend on the worker count.
pub fn sweep(env: &Arc<Env>, check: &Arc<dyn Check>, tier: Tier, lo: u64, n: u64) -> Sweep {
    let t0 = Instant::now();
    let next = Arc::new(AtomicU64::new(0));
    let slots: Arc<Vec<Mutex<Option<(Scenario, Report)>>>> = Arc::new((0..n).map(|_| Mutex::new(None)).collect());
    let done = Arc::new(AtomicUsize::new(0));
    let mut handles = vec![];
    for w in 0..env.workers {
        let next = next.clone();
        let slots = slots.clone();
        let check = check.clone();
        let done = done.clone();
        let seed = env.seed;
        handles.push(
            std::thread::Builder::new()
                .stack_size(64 << 20)
                .spawn(move || {
                    loop {
                        let i = next.fetch_add(1, Ordering::SeqCst);
                        if i >= n {
                            break;
                        }
                        // a panic of the harness itself (generator, oracle) must end the check
                        // as a harness error, never leave the sweep waiting for a dead worker
                        let r = std::panic::catch_unwind(std::panic::AssertUnwindSafe(|| {
                            let mut scn = check.generate(seed, lo + i, tier);
                            crate::gen::fix_point_goals(&mut scn);
                            let t = Instant::now();
                            let mut rep = {
                                let _g = watch(&scn);
                                check.evaluate(&scn)
                            };
                            rep.wall_us = t.elapsed().as_micros() as u64;
                            (scn, rep)
                        }));
                        match r {
                            Ok(x) => *slots[i as usize].lock().unwrap() = Some(x),
                            Err(_) => {
                                println!("harness error: the harness panicked while generating or evaluating scenario {} (seed {seed}); see the panic message above", lo + i);
                                std::process::exit(2);
                            }
                        }
                    }
                    done.fetch_add(1, Ordering::SeqCst);
                })
                .unwrap(),
        );
    }
    while done.load(Ordering::SeqCst) < env.workers {
        std::thread::sleep(std::time::Duration::from_millis(20));
    }
    for h in handles {
        let _ = h.join();
    }
    let reports = slots.iter().map(|s| s.lock().unwrap().take().expect("every slot filled")).collect();
    Sweep { reports, wall_s: t0.elapsed().as_secs_f64() }
}

pub fn write_replay(env: &Env, scn: &Scenario, sig: &str, event_hash: u64) -> String {
    let mut s = scn.clone();
    s.expect = Some(Expect { violation: sig.to_string(), event_hash: format!("{event_hash:016x}") });
    let js = serde_json::to_string_pretty(&s).unwrap();
    let mut h = crate::prng::Fnv::default();
    h.bytes(sig.as_bytes());
    h.u64(s.hash());
    let path = format!("{}/replays/{}-{:012x}.json", env.out_dir, scn.property, h.0 & 0xffff_ffff_ffff);
    let _ = std::fs::create_dir_all(format!("{}/replays", env.out_dir));
    std::fs::write(&path, js).expect("write replay");
    path
}

/// Executes one property check. Returns the process exit code.
pub fn run_check(env: &Arc<Env>, check: Arc<dyn Check>, tier: Tier) -> i32 {
    let n = env.runs_override.unwrap_or_else(|| check.default_runs(tier));
    env.say(&format!("[{}] tier={} seed={} runs={} workers={}", check.id(), tier.name(), env.seed, n, env.workers));
    let known = load_known(&env.dir);
    let t_start = Instant::now();
    start_watchdog(env, check.id().to_string(), None);

    let mut planner_runs = 0u64;
    let mut sim_ns = 0u128;
    let mut probes: BTreeMap<&'static str, u64> = BTreeMap::new();
    let mut faults: BTreeMap<String, u64> = BTreeMap::new();
    let mut traces: BTreeSet<u64> = BTreeSet::new();
    let mut shapes: BTreeSet<u64> = BTreeSet::new();
    let mut nontrivial: BTreeSet<u64> = BTreeSet::new();
    let mut transitions = 0u64;
    // sig -> (cheapest scenario (fewest seam events; first such in index order), property, count, detail, its events)
    let mut by_sig: BTreeMap<String, (Scenario, &'static str, u64, String, u64)> = BTreeMap::new();
    let mut families: BTreeMap<String, u64> = BTreeMap::new();
    let mut slow: Vec<(u64, u64, String)> = vec![];
    let mut samples: Vec<serde_json::Value> = vec![];
    let sample_at = [0u64, n / 2, n.saturating_sub(1)];
    let mut digest = crate::prng::Fnv::default();
    // scenarios are executed in chunks (bounded memory) and merged in run-index order, so
    // neither the chunking nor the worker count influences any reported number
    let chunk = 50_000u64;
    let mut lo = 0u64;
    while lo < n {
        let len = chunk.min(n - lo);
        let sw = sweep(env, &check, tier, lo, len);
        for (k, (scn, rep)) in sw.reports.iter().enumerate() {
            let i = lo + k as u64;
            planner_runs += rep.runs;
            sim_ns += rep.sim_ns as u128;
            transitions += rep.transitions;
            for (k, v) in &rep.probes {
                *probes.entry(k).or_insert(0) += v;
            }
            for (k, v) in &rep.faults {
                *faults.entry(k.clone()).or_insert(0) += v;
            }
            traces.extend(rep.traces.iter().copied());
            shapes.extend(rep.shapes.iter().copied());
            let sh = scn.hash();
            if rep.nontrivial {
                nontrivial.insert(sh);
            }
            *families.entry(format!("{}/{}/{}", scn.family, scn.planner.kind.name(), crate::spaces::kind_name(&scn.space))).or_insert(0) += 1;
            for v in &rep.violations {
                let e = by_sig.entry(v.sig.clone()).or_insert_with(|| (scn.clone(), v.property, 0, v.detail.clone(), rep.events));
                e.2 += 1;
                if rep.events < e.4 {
                    *e = (scn.clone(), v.property, e.2, v.detail.clone(), rep.events);
                }
            }
            digest.u64(sh);
            digest.u64(rep.event_hash);
            digest.u64(rep.violations.len() as u64);
            if sample_at.contains(&i) && samples.len() < 3 {
                samples.push(json!({"scenario": scn, "planner_runs": rep.runs, "nontrivial": rep.nontrivial,
                                    "violations": rep.violations.iter().map(|x| x.sig.clone()).collect::<Vec<_>>() }));
            }
            if rep.wall_us > 50_000 {
                slow.push((rep.wall_us, i, format!("runs={} {} {} {}", rep.runs, scn.family, scn.planner.kind.name(), crate::gen::space_label(scn))));
            }
        }
        lo += len;
    }
    if std::env::var("VERIF_PROFILE").is_ok() {
        slow.sort();
        slow.reverse();
        for (us, i, what) in slow.iter().take(8) {
            env.say(&format!("slow: index={i} {us}us {what}"));
        }
    }
    // digest of every scenario's event hash in run-index order: equal digests = the same
    // executions, whatever the worker count (used by `./check selftest`)
    let run_digest = digest.0;
    let mut exit = 0;
    let mut n_viol = 0u64;
    let mut known_hit = vec![];
    let mut replays = vec![];
    // minimisation is bounded by a deterministic amount of work (seam events executed by the
    // candidate runs), per signature and in total, so that a check on a badly broken tree
    // (hundreds of hanging scenarios) still reports within a minute or two
    let mut work_total: u64 = 400_000_000;
    // ... and by 60 s of CPU time in total, 12 s per signature (affects only how small the
    // replay files get)
    let mut cpu_left: f64 = 60.0;
    for (sig, (scn, prop, count, detail, _)) in &by_sig {
        let prop = *prop;
        if let Some(what) = known.lookup(prop, sig) {
            env.say(&format!("KNOWN-FINDING: property={prop} {sig} — {what} ({count} scenarios in this run)"));
            known_hit.push(json!({"signature": sig, "count": count}));
            continue;
        }
        if prop != check.id() {
            env.say(&format!("note: {sig} observed {count}x while checking {} (decided by {prop}'s own check)", check.id()));
            continue;
        }
        n_viol += count;
        exit = 1;
        let mut work = work_total.min(80_000_000);
        let before = work;
        cpu_left = (cpu_left - 0.0f64).max(0.0);
        let cpu_start = thread_cpu_s(my_tid()).unwrap_or(0.0);
        set_cpu_deadline(cpu_left.min(12.0));
        let (min_scn, min_rep) = crate::minimise::minimise(&*check, scn, sig, &mut work);
        work_total = work_total.saturating_sub(before - work);
        cpu_left -= thread_cpu_s(my_tid()).unwrap_or(0.0) - cpu_start;
        let path = write_replay(env, &min_scn, sig, min_rep.event_hash);
        env.say(&format!("VIOLATION property={} replay={} sig={} count={} :: {}", check.id(), path, sig, count, detail));
        replays.push(path);
    }

    // evidence
    let missing: Vec<&str> = check.required_probes().into_iter().filter(|p| probes.get(p).copied().unwrap_or(0) == 0).collect();
    let wall = t_start.elapsed().as_secs_f64();
    let ev = json!({
        "property_id": check.id(),
        "tier": tier.name(),
        "seed": env.seed,
        "level": check.level(),
        "coverage": {
            "evaluations": n,
            "distinct_nontrivial": nontrivial.len(),
            "rule": check.rule(),
            "samples": samples,
            "planner_runs": planner_runs,
            "runs_per_hour": if wall > 0.0 { (planner_runs as f64 / wall * 3600.0) as u64 } else { 0 },
            "scenarios_per_hour": if wall > 0.0 { (n as f64 / wall * 3600.0) as u64 } else { 0 },
            "seeds": format!("VERIF_SEED={} run indices 0..{}", env.seed, n),
            "simulated_time_ns": sim_ns.min(u64::MAX as u128) as u64,
            "fault_counts": faults,
            "probes": probes,
            "probes_required_but_zero": missing,
            "distinct_event_traces": traces.len(),
            "distinct_tree_shapes": shapes.len(),
            "transitions_checked": transitions,
            "scenario_mix": families,
            "components": {
                "real": ["oxmpl planners (RRT, RRTConnect, RRTStar, PRM)", "oxmpl state spaces and states", "planner-internal StdRng"],
                "virtual": ["oxmpl::time::Instant inside the timed functions (feature verif)"],
                "simulated_user": ["validity checker", "goal predicate and sampler", "space wrapper (delegating; scripted sampling when a script is present)"],
                "uncontrolled": ["OS entropy (from_os_rng / rand::rng) — detected, not stubbed"],
                "not_run": ["oxmpl-js"]
            },
            "known_findings_hit": known_hit,
            "replays": replays,
            "workers": env.workers,
            "run_digest": format!("{run_digest:016x}"),
        },
        "assumptions": check.assumptions(),
        "wall_s": wall,
        "violations": n_viol,
    });
    let _ = std::fs::create_dir_all(format!("{}/evidence", env.out_dir));
    std::fs::write(format!("{}/evidence/{}.json", env.out_dir, check.id()), serde_json::to_string_pretty(&ev).unwrap())
        .expect("write evidence");
    env.say(&format!(
        "[{}] scenarios={} planner_runs={} nontrivial={} traces={} violations={} digest={:016x} wall={:.1}s{}",
        check.id(),
        n,
        planner_runs,
        nontrivial.len(),
        traces.len(),
        n_viol,
        run_digest,
        wall,
        if missing.is_empty() { String::new() } else { format!(" (probes at zero: {missing:?})") }
    ));
    exit
}

/// Re-executes a replay file. Exit 1 + VIOLATION when it reproduces exactly, 2 otherwise.
pub fn run_replay(env: &Arc<Env>, check: Arc<dyn Check>, scn: &Scenario, path: &str) -> i32 {
    // a replay of a hang must itself be declared a hang
    start_watchdog(env, scn.property.clone(), Some(path.to_string()));
    let _g = watch(scn);
    let rep = check.evaluate(scn);
    let Some(exp) = &scn.expect else {
        env.say("replay file has no `expect` block; result:");
        for v in &rep.violations {
            env.say(&format!("  {} :: {}", v.sig, v.detail));
        }
        return if rep.violations.is_empty() { 0 } else { 1 };
    };
    // C07's subject is leaked entropy: which call first shows the divergence, and whether it
    // shows in a result or only in the history, differs from execution to execution. Any twin
    // divergence of the same planner reproduces a twin divergence.
    let c07_class = |sig: &str| -> Option<String> {
        let p: Vec<&str> = sig.split('/').collect();
        if p.len() >= 3 && p[0] == "C07" && p[1].starts_with("twin_") { Some(p[2].to_string()) } else { None }
    };
    let hit = rep.violations.iter().find(|v| v.sig == exp.violation).or_else(|| {
        let want = c07_class(&exp.violation)?;
        rep.violations.iter().find(|v| c07_class(&v.sig).as_deref() == Some(want.as_str()))
    });
    let hash = format!("{:016x}", rep.event_hash);
    match hit {
        Some(v) if hash == exp.event_hash || exp.event_hash == "entropy" => {
            env.say(&format!("VIOLATION property={} replay={} sig={} :: {} (event_hash {} reproduced)", scn.property, path, v.sig, v.detail, hash));
            1
        }
        Some(v) => {
            // The violation reproduces but the history differs: only legitimate for C07, whose
            // subject is leaked entropy (DESIGN 3.7).
            if scn.property == "C07" {
                env.say(&format!("VIOLATION property={} replay={} sig={} :: {} (divergent values differ between executions: that is the defect)", scn.property, path, v.sig, v.detail));
                1
            } else {
                env.say(&format!("replay mismatch: violation {} reproduced but event_hash {} != expected {}", v.sig, hash, exp.event_hash));
                2
            }
        }
        None => {
            env.say(&format!("replay did not reproduce {} (got: {:?})", exp.violation, rep.violations.iter().map(|v| &v.sig).collect::<Vec<_>>()));
            2
        }
    }
}
